package systemSmartContracts

// C38: Delegation contract bookkeeping stays consistent.
//
// Generated histories of delegate / unDelegate / withdraw / claimRewards / reDelegateRewards /
// updateRewards (end-of-epoch caller) / epoch advances / owner operations over one delegation contract
// instance backed by the real validator and staking contracts inside a real vmContext. After every
// call (successful or not) the committed contract storage is decoded and exactly the five clauses of
// the statement are evaluated:
//   1. GlobalFundData.TotalActive   == sum over delegators of value(ActiveFund)
//   2. GlobalFundData.TotalUnStaked == sum over delegators of value(UnStakedFunds...)
//   3. every fund id a delegator references exists in storage
//   4. sum of withdraw payouts  <= sum of undelegated amounts
//   5. sum of rewards paid (claim payouts + re-delegated) <= sum of updateRewards values

import (
	"fmt"
	"math/big"
	"strings"
	"testing"

	"github.com/ElrondNetwork/elrond-go/config"
	kit "github.com/ElrondNetwork/elrond-go/verifkit"
	"github.com/ElrondNetwork/elrond-go/vm"
	vmcommon "github.com/ElrondNetwork/elrond-vm-common"
	"pgregory.net/rapid"
)

type verifC38Cfg struct {
	MinDelegation   int64
	MinDeposit      int64
	InitialFunds    int64
	Cap             int64
	ServiceFee      uint64
	UnBondEpochs    uint32
	StakingV2Late   bool // delegation's staking-v2 flag (reward rounding) switches on one epoch after the start
	ReDelegateCheck bool
	UnbondTokensV2  bool
	DelegationMgr   bool
	NumDelegators   int
}

func (c verifC38Cfg) String() string {
	return fmt.Sprintf("{minDelegation %d minDeposit %d initialOwnerFunds %d cap %d serviceFee %d/10000 unBondEpochs %d stakingV2Late %v reDelegateBelowMinCheck %v unbondTokensV2 %v delegationMgrFlag %v delegators %d}",
		c.MinDelegation, c.MinDeposit, c.InitialFunds, c.Cap, c.ServiceFee, c.UnBondEpochs, c.StakingV2Late, c.ReDelegateCheck, c.UnbondTokensV2, c.DelegationMgr, c.NumDelegators)
}

type verifC38Sim struct {
	cfg     verifC38Cfg
	w       *verifVMAWorld
	scAddr  []byte
	actors  [][]byte // actors[0] is the owner
	hist    []string
	nodeSeq int

	withdrawPaid    *big.Int
	undelegated     *big.Int
	rewardsPaid     *big.Int
	rewardsReceived *big.Int
	rewardedEpoch   map[uint32]bool

	// non-triviality tracking
	undelegateEpoch map[int]uint32 // actor -> epoch of last successful unDelegate
	ntWithdraw      bool
	rewardEpochs    int
	stakeChangeAt   int // rewardEpochs value at the last stake change after >= 1 reward epoch
	stakeChanged    bool
	ntClaim         bool

	focusRewards             bool
	touchedSinceUpdate       bool // a paying claim / stake change happened since the last updateRewards
	repeatedUpdate           bool
	repeatedUpdateAfterTouch bool
	ntRepeated               bool // paying claim after a repeated update that followed a claim/stake change
	pending                  []verifC38Finding
}

func verifC38Big(v int64) []byte { return big.NewInt(v).Bytes() }

func verifC38NewSim(cfg verifC38Cfg) (*verifC38Sim, error) {
	wc := verifVMADefaultConfig()
	wc.NodePrice = 1000
	wc.UnBondPeriodInEpochs = cfg.UnBondEpochs
	wc.MaxServiceFee = 10000
	wc.StartEpoch = 2
	never := uint32(1000000)
	wc.EnableEpochs = config.EnableEpochs{
		StakingV2EnableEpoch:               0,
		ValidatorToDelegationEnableEpoch:   never,
		ReDelegateBelowMinCheckEnableEpoch: never,
		UnbondTokensV2EnableEpoch:          never,
		DelegationManagerEnableEpoch:       never,
	}
	if cfg.StakingV2Late {
		// validator: top-up enabled from the start epoch (epoch >= flag); delegation: v2 rounding only from the next epoch (epoch > flag)
		wc.EnableEpochs.StakingV2EnableEpoch = wc.StartEpoch
	}
	if cfg.ReDelegateCheck {
		wc.EnableEpochs.ReDelegateBelowMinCheckEnableEpoch = 0
	}
	if cfg.UnbondTokensV2 {
		wc.EnableEpochs.UnbondTokensV2EnableEpoch = 0
	}
	if cfg.DelegationMgr {
		wc.EnableEpochs.DelegationManagerEnableEpoch = 0
	}
	sc := verifVMASCAddr(1)
	w, err := verifVMANewWorld(wc, sc)
	if err != nil {
		return nil, err
	}
	s := &verifC38Sim{cfg: cfg, w: w, scAddr: sc,
		withdrawPaid: big.NewInt(0), undelegated: big.NewInt(0), rewardsPaid: big.NewInt(0), rewardsReceived: big.NewInt(0),
		rewardedEpoch: map[uint32]bool{}, undelegateEpoch: map[int]uint32{}}
	for i := 0; i <= cfg.NumDelegators; i++ {
		s.actors = append(s.actors, verifVMAUserAddr('d', i))
	}
	// delegation manager configuration, as written by the delegation manager's init
	mgmt := &DelegationManagement{
		MinServiceFee:       0,
		MaxServiceFee:       10000,
		MinDeposit:          big.NewInt(cfg.MinDeposit),
		MinDelegationAmount: big.NewInt(cfg.MinDelegation),
	}
	buf, err := w.marsh.Marshal(mgmt)
	if err != nil {
		return nil, err
	}
	w.commitStorage(vm.DelegationManagerSCAddress, []byte(delegationManagementKey), buf)

	res, err := w.runInit(s.actors[0], sc, big.NewInt(cfg.InitialFunds), verifC38Big(cfg.Cap), verifC38Big(int64(cfg.ServiceFee)))
	if err != nil {
		return nil, err
	}
	if res.Code != vmcommon.Ok {
		return nil, fmt.Errorf("init returned %s: %s", res.Code, res.Message)
	}
	s.hist = append(s.hist, fmt.Sprintf("e%d init(owner, value %d)", w.epoch, cfg.InitialFunds))
	return s, nil
}

// ---- decoding of the committed contract storage ----

type verifC38Delegator struct {
	exists   bool
	data     *DelegatorData
	active   *big.Int
	unstaked *big.Int
}

type verifC38Decoded struct {
	global     *GlobalFundData
	delegators []verifC38Delegator
	problems   []verifC38Finding
}

type verifC38Finding struct{ key, msg string }

func (s *verifC38Sim) storageOf(key []byte) []byte {
	return s.w.storage[string(s.scAddr)][string(key)]
}

func (s *verifC38Sim) fund(key []byte) (*Fund, bool) {
	buf := s.storageOf(key)
	if len(buf) == 0 {
		return nil, false
	}
	f := &Fund{}
	if err := s.w.marsh.Unmarshal(f, buf); err != nil || f.Value == nil {
		return nil, false
	}
	return f, true
}

func (s *verifC38Sim) decode() *verifC38Decoded {
	d := &verifC38Decoded{}
	g := &GlobalFundData{}
	if buf := s.storageOf([]byte(globalFundKey)); len(buf) > 0 && s.w.marsh.Unmarshal(g, buf) == nil {
		d.global = g
	}
	for i, a := range s.actors {
		del := verifC38Delegator{active: big.NewInt(0), unstaked: big.NewInt(0)}
		buf := s.storageOf(a)
		if len(buf) > 0 {
			dd := &DelegatorData{}
			if err := s.w.marsh.Unmarshal(dd, buf); err == nil {
				del.exists = true
				del.data = dd
				if len(dd.ActiveFund) > 0 {
					f, ok := s.fund(dd.ActiveFund)
					if !ok {
						d.problems = append(d.problems, verifC38Finding{"C38:fund-missing:active", fmt.Sprintf("delegator %d references active fund %q which is not in storage", i, dd.ActiveFund)})
					} else {
						del.active.Set(f.Value)
					}
				}
				for _, k := range dd.UnStakedFunds {
					f, ok := s.fund(k)
					if !ok {
						d.problems = append(d.problems, verifC38Finding{"C38:fund-missing:unstaked", fmt.Sprintf("delegator %d references unstaked fund %q which is not in storage", i, k)})
					} else {
						del.unstaked.Add(del.unstaked, f.Value)
					}
				}
			}
		}
		d.delegators = append(d.delegators, del)
	}
	return d
}

// check evaluates the five clauses on the committed state.
func (s *verifC38Sim) check() []verifC38Finding {
	d := s.decode()
	out := append([]verifC38Finding(nil), s.pending...)
	s.pending = nil
	out = append(out, d.problems...)
	if d.global == nil || d.global.TotalActive == nil || d.global.TotalUnStaked == nil {
		out = append(out, verifC38Finding{"C38:global-fund-undecodable", "GlobalFundData missing or not decodable"})
		return out
	}
	if len(d.problems) == 0 {
		sumA, sumU := big.NewInt(0), big.NewInt(0)
		for _, del := range d.delegators {
			sumA.Add(sumA, del.active)
			sumU.Add(sumU, del.unstaked)
		}
		if sumA.Cmp(d.global.TotalActive) != 0 {
			out = append(out, verifC38Finding{"C38:total-active", fmt.Sprintf("TotalActive %s != sum of the delegators' active funds %s", d.global.TotalActive, sumA)})
		}
		if sumU.Cmp(d.global.TotalUnStaked) != 0 {
			out = append(out, verifC38Finding{"C38:total-unstaked", fmt.Sprintf("TotalUnStaked %s != sum of the delegators' unstaked funds %s", d.global.TotalUnStaked, sumU)})
		}
	}
	if s.withdrawPaid.Cmp(s.undelegated) > 0 {
		out = append(out, verifC38Finding{"C38:withdrawn-exceeds-undelegated", fmt.Sprintf("withdrawals paid %s in total, only %s was undelegated", s.withdrawPaid, s.undelegated)})
	}
	if s.rewardsPaid.Cmp(s.rewardsReceived) > 0 {
		out = append(out, verifC38Finding{"C38:rewards-paid-exceed-received", fmt.Sprintf("rewards paid %s (claims + re-delegated), rewards received %s", s.rewardsPaid, s.rewardsReceived)})
	}
	return out
}

// ---- operations ----

type verifC38Op struct {
	Kind  string
	Actor int
	Value int64
	Keys  []int
	Flag  bool
}

func (o verifC38Op) String() string {
	switch o.Kind {
	case "updateRewards":
		if o.Flag {
			return fmt.Sprintf("updateRewards-sameEpoch(%d)", o.Value)
		}
		return fmt.Sprintf("updateRewards(%d)", o.Value)
	case "delegate", "unDelegate", "changeServiceFee", "modifyTotalDelegationCap", "advanceEpoch":
		return fmt.Sprintf("%s(a%d, %d)", o.Kind, o.Actor, o.Value)
	case "addNodes", "stakeNodes", "unStakeNodes", "unBondNodes", "reStakeUnStakedNodes", "removeNodes":
		return fmt.Sprintf("%s(a%d, nodes %v)", o.Kind, o.Actor, o.Keys)
	case "setAutomaticActivation", "setCheckCapOnReDelegateRewards":
		return fmt.Sprintf("%s(a%d, %v)", o.Kind, o.Actor, o.Flag)
	}

	return fmt.Sprintf("%s(a%d)", o.Kind, o.Actor)
}

func verifC38NodeKey(i int) []byte {
	k := make([]byte, 96)
	for j := range k {
		k[j] = byte('N')
	}
	k[95] = byte('0' + i)
	return k
}

func (s *verifC38Sim) apply(op verifC38Op) (verifVMAResult, error) {
	w := s.w
	zero := big.NewInt(0)
	actor := s.actors[op.Actor]
	before := s.decode()
	var res verifVMAResult
	var err error
	switch op.Kind {
	case "advanceEpoch":
		w.setEpoch(w.epoch + uint32(op.Value))
		s.hist = append(s.hist, fmt.Sprintf("e%d", w.epoch))
		return verifVMAResult{}, nil
	case "updateRewards":
		if s.rewardedEpoch[w.epoch] && !op.Flag {
			// usual case (the protocol calls updateRewards once per epoch): move on to the next epoch first.
			// op.Flag = a further call in the same epoch: the contract only checks the caller
			w.setEpoch(w.epoch + 1)
		}
		res, err = w.run(vm.EndOfEpochAddress, s.scAddr, "updateRewards", big.NewInt(op.Value))
		if err == nil && res.Code == vmcommon.Ok {
			// "rewards received" = what was transferred to the contract with each accepted call, whatever the
			// contract records about it (a further call in the same epoch replaces the epoch's record)
			s.rewardsReceived.Add(s.rewardsReceived, big.NewInt(op.Value))
			if s.rewardedEpoch[w.epoch] {
				s.repeatedUpdate = true
				if s.touchedSinceUpdate {
					s.repeatedUpdateAfterTouch = true
				}
			} else {
				s.rewardEpochs++
			}
			s.rewardedEpoch[w.epoch] = true
			s.touchedSinceUpdate = false
		}
	case "claimAll":
		// every actor claims in turn (each claim is a transaction of its own and is checked like any other)
		for i := range s.actors {
			if _, errClaim := s.apply(verifC38Op{Kind: "claimRewards", Actor: i}); errClaim != nil {
				return res, errClaim
			}
			if f := s.check(); len(f) > 0 {
				s.pending = append(s.pending, f...)
			}
		}
		return verifVMAResult{}, nil
	case "delegate":
		res, err = w.run(actor, s.scAddr, "delegate", big.NewInt(op.Value))
	case "unDelegate":
		res, err = w.run(actor, s.scAddr, "unDelegate", zero, verifC38Big(op.Value))
	case "withdraw", "claimRewards", "reDelegateRewards":
		res, err = w.run(actor, s.scAddr, op.Kind, zero)
	case "changeServiceFee", "modifyTotalDelegationCap":
		res, err = w.run(actor, s.scAddr, op.Kind, zero, verifC38Big(op.Value))
	case "setAutomaticActivation", "setCheckCapOnReDelegateRewards":
		res, err = w.run(actor, s.scAddr, op.Kind, zero, []byte(fmt.Sprint(op.Flag)))
	case "addNodes":
		var args [][]byte
		for _, k := range op.Keys {
			args = append(args, verifC38NodeKey(k), []byte("signed"))
		}
		res, err = w.run(actor, s.scAddr, op.Kind, zero, args...)
	case "stakeNodes", "unStakeNodes", "unBondNodes", "reStakeUnStakedNodes", "removeNodes":
		var args [][]byte
		for _, k := range op.Keys {
			args = append(args, verifC38NodeKey(k))
		}
		res, err = w.run(actor, s.scAddr, op.Kind, zero, args...)
	default:
		return res, fmt.Errorf("unknown op %s", op.Kind)
	}
	if err != nil {
		return res, err
	}
	s.hist = append(s.hist, fmt.Sprintf("e%d %s=>%s", w.epoch, op, res.Code))
	if res.Code != vmcommon.Ok {
		return res, nil
	}
	after := s.decode()
	paid := verifVMATransfersTo(res.Output, actor)
	switch op.Kind {
	case "withdraw":
		s.withdrawPaid.Add(s.withdrawPaid, paid)
		if paid.Sign() > 0 {
			if e, ok := s.undelegateEpoch[op.Actor]; ok && w.epoch > e {
				s.ntWithdraw = true
			}
		}
	case "unDelegate":
		moved := new(big.Int).Sub(after.delegators[op.Actor].unstaked, before.delegators[op.Actor].unstaked)
		if moved.Sign() > 0 {
			s.undelegated.Add(s.undelegated, moved)
		}
		s.undelegateEpoch[op.Actor] = w.epoch
		s.noteStakeChange()
	case "claimRewards":
		s.rewardsPaid.Add(s.rewardsPaid, paid)
		if paid.Sign() > 0 {
			if s.repeatedUpdateAfterTouch && s.rewardedEpoch[w.epoch] {
				s.ntRepeated = true
			}
			s.touchedSinceUpdate = true
		}
		if paid.Sign() > 0 && s.stakeChanged && s.rewardEpochs > s.stakeChangeAt && s.rewardEpochs >= 2 {
			s.ntClaim = true
		}
	case "reDelegateRewards":
		moved := new(big.Int).Sub(after.delegators[op.Actor].active, before.delegators[op.Actor].active)
		if moved.Sign() > 0 {
			s.rewardsPaid.Add(s.rewardsPaid, moved)
		}
		s.noteStakeChange()
	case "delegate":
		s.noteStakeChange()
	}
	return res, nil
}

func (s *verifC38Sim) noteStakeChange() {
	s.touchedSinceUpdate = true
	if s.rewardEpochs >= 1 {
		s.stakeChanged = true
		s.stakeChangeAt = s.rewardEpochs
	}
}

// pickActor draws an actor, preferring (3 of 4 draws) one for which the operation can succeed.
func (s *verifC38Sim) pickActor(rt *rapid.T, eligible func(d verifC38Delegator, i int) bool) int {
	any := rapid.IntRange(0, len(s.actors)-1).Draw(rt, "actor")
	if rapid.IntRange(0, 3).Draw(rt, "anyActor") == 0 {
		return any
	}
	dec := s.decode()
	var good []int
	for i, d := range dec.delegators {
		if eligible(d, i) {
			good = append(good, i)
		}
	}
	if len(good) == 0 {
		return any
	}
	return good[any%len(good)]
}

func (s *verifC38Sim) genOp(rt *rapid.T) verifC38Op {
	kinds := []string{
		"delegate", "delegate", "delegate", "delegate", "delegate",
		"unDelegate", "unDelegate", "unDelegate", "unDelegate",
		"withdraw", "withdraw", "withdraw",
		"claimRewards", "claimRewards", "claimRewards", "claimRewards",
		"reDelegateRewards", "reDelegateRewards",
		"updateRewards", "updateRewards", "updateRewards", "updateRewards", "updateRewards", "updateRewards", "updateRewards",
		"advanceEpoch", "advanceEpoch", "advanceEpoch",
		"changeServiceFee", "ownerNodes", "ownerConfig", "claimAll",
	}
	if s.focusRewards {
		// short reward-centred histories: little accumulated slack between "received" and "paid"
		kinds = []string{
			"delegate", "delegate", "delegate",
			"unDelegate", "unDelegate",
			"claimRewards", "claimRewards", "claimRewards", "claimRewards", "claimRewards",
			"reDelegateRewards",
			"updateRewards", "updateRewards", "updateRewards", "updateRewards", "updateRewards", "updateRewards",
			"advanceEpoch", "withdraw", "changeServiceFee", "claimAll", "claimAll",
		}
	}
	kind := rapid.SampledFrom(kinds).Draw(rt, "op")
	op := verifC38Op{Kind: kind}
	m := s.cfg.MinDelegation
	switch kind {
	case "delegate":
		op.Actor = rapid.IntRange(0, len(s.actors)-1).Draw(rt, "actor")
		op.Value = rapid.SampledFrom([]int64{m - 1, m, m, m + 1, 2 * m, 2*m - 1, 5 * m, 5 * m, 1000, 2500, 0}).Draw(rt, "amount")
		if op.Value < 0 {
			op.Value = 0
		}
	case "unDelegate":
		op.Actor = s.pickActor(rt, func(d verifC38Delegator, _ int) bool { return d.active.Sign() > 0 })
		active := s.decode().delegators[op.Actor].active.Int64()
		choices := []int64{m, m + 1, active, active, active, active - (m - 1), active - m, active - m, active - 1, active + 1, active / 2, active / 2, 1}
		op.Value = rapid.SampledFrom(choices).Draw(rt, "amount")
		if op.Value < 0 {
			op.Value = 0
		}
	case "withdraw":
		op.Actor = s.pickActor(rt, func(d verifC38Delegator, _ int) bool { return d.unstaked.Sign() > 0 })
	case "claimRewards", "reDelegateRewards":
		op.Actor = s.pickActor(rt, func(d verifC38Delegator, _ int) bool { return d.exists && d.active.Sign() > 0 })
	case "updateRewards":
		op.Value = rapid.SampledFrom([]int64{0, 1, 7, 100, 999, 1000, 12345, 12345, 1000003, 1000003}).Draw(rt, "rewards")
		// a further call in an epoch that already had one: 1 in 4 (1 in 2 in the reward-centred test)
		again := rapid.IntRange(0, 3).Draw(rt, "sameEpoch")
		op.Flag = again == 0 || (s.focusRewards && again == 1)
	case "advanceEpoch":
		op.Value = int64(rapid.IntRange(1, 3).Draw(rt, "epochs"))
	case "changeServiceFee":
		if rapid.IntRange(0, 5).Draw(rt, "notOwner") == 0 {
			op.Actor = rapid.IntRange(0, len(s.actors)-1).Draw(rt, "actor")
		}
		op.Value = rapid.SampledFrom([]int64{0, 1, 3333, 5000, 9999, 10000, 10001}).Draw(rt, "fee")
	case "ownerNodes":
		op.Kind = rapid.SampledFrom([]string{"addNodes", "addNodes", "stakeNodes", "stakeNodes", "unStakeNodes", "unBondNodes", "reStakeUnStakedNodes", "removeNodes"}).Draw(rt, "nodeOp")
		n := rapid.IntRange(1, 2).Draw(rt, "nNodes")
		first := rapid.IntRange(0, 1).Draw(rt, "firstNode")
		for i := 0; i < n; i++ {
			op.Keys = append(op.Keys, (first+i)%2)
		}
	case "ownerConfig":
		op.Kind = rapid.SampledFrom([]string{"setAutomaticActivation", "setCheckCapOnReDelegateRewards", "modifyTotalDelegationCap"}).Draw(rt, "cfgOp")
		op.Flag = rapid.Bool().Draw(rt, "flag")
		if op.Kind == "modifyTotalDelegationCap" {
			total := int64(0)
			if g := s.decode().global; g != nil {
				total = g.TotalActive.Int64()
			}
			op.Value = rapid.SampledFrom([]int64{0, 0, total, total + 5*m, total + 3000, total - 1}).Draw(rt, "cap")
			if op.Value < 0 {
				op.Value = 0
			}
		}
	}
	return op
}

func verifC38GenCfg(rt *rapid.T) verifC38Cfg {
	cfg := verifC38Cfg{}
	cfg.MinDelegation = rapid.SampledFrom([]int64{1, 2, 10, 10, 25}).Draw(rt, "minDelegation")
	cfg.MinDeposit = rapid.SampledFrom([]int64{0, 10, 50, 1250}).Draw(rt, "minDeposit")
	cfg.InitialFunds = cfg.MinDeposit + rapid.SampledFrom([]int64{0, 1, 100, 1000, 2000}).Draw(rt, "extraOwnerFunds")
	if cfg.InitialFunds < cfg.MinDelegation {
		// the delegation manager only creates a contract with a deposit >= MinCreationDeposit, and the production
		// configuration has MinCreationDeposit >= MinStakeAmount (= the minimum delegation); a smaller deposit is rejected by init
		cfg.InitialFunds = cfg.MinDelegation
	}
	if rapid.IntRange(0, 3).Draw(rt, "capped") == 0 {
		cfg.Cap = cfg.InitialFunds + rapid.SampledFrom([]int64{0, 100, 3000, 10000}).Draw(rt, "capRoom")
	}
	cfg.ServiceFee = uint64(rapid.SampledFrom([]int{0, 1, 1000, 3333, 5000, 9999, 10000}).Draw(rt, "serviceFee"))
	cfg.UnBondEpochs = uint32(rapid.IntRange(0, 3).Draw(rt, "unBondEpochs"))
	cfg.StakingV2Late = rapid.IntRange(0, 3).Draw(rt, "stakingV2Late") == 0
	cfg.ReDelegateCheck = rapid.Bool().Draw(rt, "reDelegateBelowMinCheck")
	cfg.UnbondTokensV2 = rapid.Bool().Draw(rt, "unbondTokensV2")
	cfg.DelegationMgr = rapid.IntRange(0, 3).Draw(rt, "delegationMgrFlag") != 0
	cfg.NumDelegators = rapid.IntRange(2, 4).Draw(rt, "delegators")
	return cfg
}

func verifC38Report(c *kit.Case, findings []verifC38Finding, s *verifC38Sim) {
	for _, f := range findings {
		if kit.IsKnown(f.key) {
			c.Excluded(f.key)
			continue
		}
		c.Violation(f.key, "%s\nconfig %s\nhistory: %s", f.msg, s.cfg, strings.Join(s.hist, " ; "))
	}
}

func verifC38Case(rt *rapid.T, c *kit.Case, focus bool) {
	cfg := verifC38GenCfg(rt)
	var s *verifC38Sim
	var err error
	c.NoPanic("C38:panic:init", func() { s, err = verifC38NewSim(cfg) })
	if err != nil {
		rt.Fatalf("fixture: %v (config %s)", err, cfg)
	}
	s.focusRewards = focus
	verifC38Report(c, s.check(), s)
	step := func(op verifC38Op) {
		var res verifVMAResult
		var errRun error
		c.NoPanic("C38:panic:"+op.Kind, func() { res, errRun = s.apply(op) })
		if errRun != nil {
			rt.Fatalf("fixture: %v", errRun)
		}
		if op.Kind != "advanceEpoch" && op.Kind != "claimAll" {
			if res.Code == vmcommon.Ok {
				c.Class("ok:" + op.Kind)
			} else {
				c.Class("rejected:" + op.Kind)
			}
		}
		if op.Kind == "updateRewards" && op.Flag && res.Code == vmcommon.Ok {
			c.Class("updateRewards-in-an-epoch-that-had-one")
		}
		verifC38Report(c, s.check(), s)
	}
	rt.Repeat(map[string]func(*rapid.T){
		"op": func(rt *rapid.T) { step(s.genOp(rt)) },
	})
	// settlement: everybody claims, so that the totals are compared with as little unclaimed slack as possible
	step(verifC38Op{Kind: "claimAll"})
	if s.ntWithdraw {
		c.Class("nt:undelegate-epoch-withdraw")
	}
	if s.ntClaim {
		c.Class("nt:claim-after-2-reward-epochs-with-stake-change")
	}
	if s.ntRepeated {
		c.Class("nt:paying-claim-after-repeated-update-following-a-claim-or-stake-change")
	}
	nt := s.ntWithdraw && s.ntClaim
	if focus {
		nt = s.ntRepeated
	}
	if nt {
		c.NonTrivial(strings.Join(s.hist, ";"))
		c.Sample("config %s history: %s", s.cfg, strings.Join(s.hist, " ; "))
	}
}

func TestVerifC38_Histories(t *testing.T) {
	kit.Run(t, "C38", kit.Budget{Quick: 400, Thorough: 4000, Steps: 55},
		"one delegation contract (owner + 2-4 delegators) over the real validator/staking contracts and vmContext; histories of delegate (amounts around the minimum, node-price sized), unDelegate (partial, full, leaving dust, too much), withdraw, claimRewards, reDelegateRewards, claim-by-everybody, updateRewards by the end-of-epoch caller (usually once per epoch, 1 in 4 a further call in the same epoch), epoch advances 1-3, changeServiceFee, owner node operations (0-2 nodes) and config changes; everybody claims at the end; unbond period 0-3 epochs; flags staking-v2-late / re-delegate-below-min / unbond-tokens-v2 / delegation-manager drawn per case; the five clauses are evaluated on the decoded committed storage after every call; non-trivial = history with unDelegate -> later epoch -> withdraw that pays out AND a paying claimRewards after >= 2 reward epochs with a stake change between reward epochs",
		func(rt *rapid.T, c *kit.Case) { verifC38Case(rt, c, false) })
}

func TestVerifC38_RewardHistories(t *testing.T) {
	kit.Run(t, "C38", kit.Budget{Quick: 1200, Thorough: 12000, Steps: 18},
		"same fixture and oracle, short reward-centred histories (~18 calls: delegate, unDelegate, claimRewards, reDelegateRewards, claim-by-everybody, updateRewards with every second call repeated inside the same epoch, few epoch advances), everybody claims at the end; non-trivial = a paying claim in an epoch whose reward call was repeated after somebody had claimed or changed stake",
		func(rt *rapid.T, c *kit.Case) { verifC38Case(rt, c, true) })
}

func TestVerifC38_Regress(t *testing.T) {
	kit.Silence()
	// Minimal counterexample found by TestVerifC38_Histories (clause 5): the owner undelegates everything (his
	// delegator record stays, without active fund), one epoch later rewards 1 arrive for the remaining total
	// active of 1, the owner delegates 2 and claims: computeAndUpdateRewards had not advanced his checkpoint
	// while he had no active fund, so the new stake 2 earns 1*2/1 = 2 for an epoch in which he had no stake.
	{
		cfg := verifC38Cfg{MinDelegation: 1, MinDeposit: 0, InitialFunds: 1, ServiceFee: 0, UnBondEpochs: 0, StakingV2Late: true, NumDelegators: 2}
		s, err := verifC38NewSim(cfg)
		if err != nil {
			t.Fatalf("fixture: %v", err)
		}
		for _, op := range []verifC38Op{
			{Kind: "delegate", Actor: 1, Value: 1},
			{Kind: "unDelegate", Actor: 0, Value: 1},
			{Kind: "advanceEpoch", Value: 1},
			{Kind: "updateRewards", Value: 1},
			{Kind: "delegate", Actor: 0, Value: 2},
			{Kind: "claimRewards", Actor: 0},
		} {
			res, errRun := s.apply(op)
			if errRun != nil {
				t.Fatalf("fixture: %v", errRun)
			}
			if res.Code != vmcommon.Ok {
				t.Fatalf("fixture: %s returned %s (%s)", op, res.Code, res.Message)
			}
			for _, f := range s.check() {
				kit.FailPlain(t, "C38", f.key, "%s\nconfig %s\nhistory: %s", f.msg, cfg, strings.Join(s.hist, " ; "))
			}
		}
	}
	// The same with an ordinary delegator and realistic amounts: a1 leaves completely in epoch 2, five reward
	// epochs pass, he comes back with 1000 and claims at once.
	{
		cfg := verifC38Cfg{MinDelegation: 10, MinDeposit: 50, InitialFunds: 1000, ServiceFee: 1000, UnBondEpochs: 1, NumDelegators: 2, DelegationMgr: true, UnbondTokensV2: true, ReDelegateCheck: true}
		s, err := verifC38NewSim(cfg)
		if err != nil {
			t.Fatalf("fixture: %v", err)
		}
		ops := []verifC38Op{{Kind: "delegate", Actor: 1, Value: 100}, {Kind: "unDelegate", Actor: 1, Value: 100}}
		for i := 0; i < 5; i++ {
			ops = append(ops, verifC38Op{Kind: "advanceEpoch", Value: 1}, verifC38Op{Kind: "updateRewards", Value: 1000})
		}
		ops = append(ops, verifC38Op{Kind: "delegate", Actor: 1, Value: 1000}, verifC38Op{Kind: "claimRewards", Actor: 1}, verifC38Op{Kind: "claimRewards", Actor: 0})
		for _, op := range ops {
			res, errRun := s.apply(op)
			if errRun != nil {
				t.Fatalf("fixture: %v", errRun)
			}
			if res.Code != vmcommon.Ok {
				t.Fatalf("fixture: %s returned %s (%s)", op, res.Code, res.Message)
			}
			for _, f := range s.check() {
				kit.FailPlain(t, "C38", f.key, "%s\nconfig %s\nhistory: %s", f.msg, cfg, strings.Join(s.hist, " ; "))
			}
		}
	}
	// A fixed history touching every clause (smoke test of the fixture and of the payout accounting).
	cfg := verifC38Cfg{MinDelegation: 10, MinDeposit: 50, InitialFunds: 1050, ServiceFee: 1000, UnBondEpochs: 1, NumDelegators: 2, DelegationMgr: true, UnbondTokensV2: true, ReDelegateCheck: true}
	s, err := verifC38NewSim(cfg)
	if err != nil {
		t.Fatalf("fixture: %v", err)
	}
	ops := []verifC38Op{
		{Kind: "delegate", Actor: 1, Value: 100},
		{Kind: "delegate", Actor: 2, Value: 10},
		{Kind: "updateRewards", Value: 1000},
		{Kind: "advanceEpoch", Value: 1},
		{Kind: "unDelegate", Actor: 1, Value: 40},
		{Kind: "updateRewards", Value: 999},
		{Kind: "advanceEpoch", Value: 1},
		{Kind: "claimRewards", Actor: 1},
		{Kind: "reDelegateRewards", Actor: 2},
		{Kind: "withdraw", Actor: 1},
		{Kind: "claimRewards", Actor: 0},
		{Kind: "unDelegate", Actor: 2, Value: 10},
		{Kind: "advanceEpoch", Value: 2},
		{Kind: "withdraw", Actor: 2},
	}
	expectOk := map[int]bool{0: true, 1: true, 2: true, 4: true, 5: true, 7: true, 9: true, 10: true, 13: true}
	for i, op := range ops {
		res, errRun := s.apply(op)
		if errRun != nil {
			t.Fatalf("fixture: %v", errRun)
		}
		if expectOk[i] && res.Code != vmcommon.Ok {
			t.Fatalf("fixture: %s returned %s (%s); history %s", op, res.Code, res.Message, strings.Join(s.hist, " ; "))
		}
		for _, f := range s.check() {
			kit.FailPlain(t, "C38", f.key, "%s\nhistory: %s", f.msg, strings.Join(s.hist, " ; "))
		}
	}
	if s.withdrawPaid.Sign() == 0 || s.rewardsPaid.Sign() == 0 {
		t.Fatalf("fixture: the regression history paid no withdrawal (%s) or no rewards (%s): %s", s.withdrawPaid, s.rewardsPaid, strings.Join(s.hist, " ; "))
	}
}
