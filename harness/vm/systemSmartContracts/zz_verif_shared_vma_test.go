package systemSmartContracts

// Shared fixture ("SF" of DESIGN.md) for the C38 and C40 harnesses: a real vmContext over a
// blockchain-hook stub whose epoch/nonce/storage are driven by the harness, real staking, validator
// and delegation contracts wired exactly like vm/factory/systemSCFactory.go does (one shared
// StakingSystemSCConfig, one epoch notifier, the production gogo-proto marshalizer) and a driver that
// plays the role of vm/process/systemVM.RunSmartContractCall + the SC processor (a call whose return
// code is not Ok has no effect on committed storage).

import (
	"fmt"
	"math/big"
	"sort"

	"github.com/ElrondNetwork/elrond-go/config"
	"github.com/ElrondNetwork/elrond-go/core"
	"github.com/ElrondNetwork/elrond-go/data"
	"github.com/ElrondNetwork/elrond-go/data/state"
	"github.com/ElrondNetwork/elrond-go/marshal"
	"github.com/ElrondNetwork/elrond-go/process/smartContract/hooks"
	"github.com/ElrondNetwork/elrond-go/testscommon"
	"github.com/ElrondNetwork/elrond-go/vm"
	"github.com/ElrondNetwork/elrond-go/vm/mock"
	vmcommon "github.com/ElrondNetwork/elrond-vm-common"
	"github.com/ElrondNetwork/elrond-vm-common/parsers"
)

// verifVMANotifier is a minimal vm.EpochNotifier: contracts register and are told every epoch change.
type verifVMANotifier struct {
	handlers []core.EpochSubscriberHandler
	epoch    uint32
}

func (n *verifVMANotifier) RegisterNotifyHandler(h core.EpochSubscriberHandler) {
	n.handlers = append(n.handlers, h)
	h.EpochConfirmed(n.epoch, 0)
}
func (n *verifVMANotifier) CurrentEpoch() uint32            { return n.epoch }
func (n *verifVMANotifier) CheckEpoch(_ data.HeaderHandler) {}
func (n *verifVMANotifier) IsInterfaceNil() bool            { return n == nil }
func (n *verifVMANotifier) confirm(epoch uint32) {
	n.epoch = epoch
	for _, h := range n.handlers {
		h.EpochConfirmed(epoch, 0)
	}
}

// verifVMAConfig are the knobs of the fixture.
type verifVMAConfig struct {
	NodePrice            int64
	MinStakeValue        int64
	UnJailValue          int64
	UnBondPeriod         uint64 // nonces (staking SC, nodes)
	UnBondPeriodInEpochs uint32 // epochs (tokens; validator + delegation)
	MinNumNodes          uint64
	MaxNumNodes          uint64
	MinServiceFee        uint64
	MaxServiceFee        uint64
	EnableEpochs         config.EnableEpochs
	StartEpoch           uint32
	GasCost              vm.GasCost
}

func verifVMADefaultConfig() verifVMAConfig {
	return verifVMAConfig{
		NodePrice:            1000,
		MinStakeValue:        1,
		UnJailValue:          10,
		UnBondPeriod:         2,
		UnBondPeriodInEpochs: 2,
		MinNumNodes:          1,
		MaxNumNodes:          10,
		MinServiceFee:        0,
		MaxServiceFee:        10000,
		StartEpoch:           1,
		GasCost: vm.GasCost{MetaChainSystemSCsCost: vm.MetaChainSystemSCsCost{
			Stake: 5, UnStake: 5, UnBond: 5, Claim: 5, Get: 1, ChangeRewardAddress: 5, ChangeValidatorKeys: 5, UnJail: 5,
			DelegationOps: 1, UnStakeTokens: 5, UnBondTokens: 5, DelegationMgrOps: 5, ValidatorToDelegation: 5, GetAllNodeStates: 1,
		}},
	}
}

// verifVMAWorld is one simulated metachain state.
type verifVMAWorld struct {
	cfg        verifVMAConfig
	eei        *vmContext
	marsh      marshal.Marshalizer
	notifier   *verifVMANotifier
	storage    map[string]map[string][]byte // committed contract storage
	epoch      uint32
	nonce      uint64
	contracts  map[string]vm.SystemSmartContract
	staking    *stakingSC
	validator  *validatorSC
	delegation *delegation
}

func verifVMANewWorld(cfg verifVMAConfig, delegationAddrs ...[]byte) (*verifVMAWorld, error) {
	w := &verifVMAWorld{
		cfg:       cfg,
		marsh:     &marshal.GogoProtoMarshalizer{},
		notifier:  &verifVMANotifier{epoch: cfg.StartEpoch},
		storage:   map[string]map[string][]byte{},
		epoch:     cfg.StartEpoch,
		nonce:     10,
		contracts: map[string]vm.SystemSmartContract{},
	}
	hook := &mock.BlockChainHookStub{
		CurrentEpochCalled: func() uint32 { return w.epoch },
		CurrentNonceCalled: func() uint64 { return w.nonce },
		CurrentRoundCalled: func() uint64 { return w.nonce },
		GetStorageDataCalled: func(addr []byte, key []byte) ([]byte, error) {
			return w.storage[string(addr)][string(key)], nil
		},
		GetUserAccountCalled: func(_ []byte) (vmcommon.UserAccountHandler, error) {
			return nil, state.ErrAccNotFound
		},
		NumberOfShardsCalled: func() uint32 { return 1 },
	}
	eei, err := NewVMContext(hook, hooks.NewVMCryptoHook(), parsers.NewCallArgsParser(), &testscommon.AccountsStub{}, &mock.RaterMock{})
	if err != nil {
		return nil, err
	}
	w.eei = eei
	err = eei.SetSystemSCContainer(&mock.SystemSCContainerStub{
		GetCalled: func(key []byte) (vm.SystemSmartContract, error) {
			c, ok := w.contracts[string(key)]
			if !ok {
				return nil, vm.ErrUnknownSystemSmartContract
			}
			return c, nil
		},
	})
	if err != nil {
		return nil, err
	}

	stakingCfg := config.StakingSystemSCConfig{
		GenesisNodePrice:         fmt.Sprint(cfg.NodePrice),
		MinStakeValue:            fmt.Sprint(cfg.MinStakeValue),
		UnJailValue:              fmt.Sprint(cfg.UnJailValue),
		MinStepValue:             "1",
		UnBondPeriod:             cfg.UnBondPeriod,
		UnBondPeriodInEpochs:     cfg.UnBondPeriodInEpochs,
		MaxNumberOfNodesForStake: cfg.MaxNumNodes,
		MinUnstakeTokensValue:    "1",
	}
	epochCfg := config.EpochConfig{EnableEpochs: cfg.EnableEpochs}

	w.staking, err = NewStakingSmartContract(ArgsNewStakingSmartContract{
		MinNumNodes:          cfg.MinNumNodes,
		StakingSCConfig:      stakingCfg,
		Eei:                  eei,
		StakingAccessAddr:    vm.ValidatorSCAddress,
		JailAccessAddr:       vm.JailingAddress,
		EndOfEpochAccessAddr: vm.EndOfEpochAddress,
		GasCost:              cfg.GasCost,
		Marshalizer:          w.marsh,
		EpochNotifier:        w.notifier,
		EpochConfig:          epochCfg,
	})
	if err != nil {
		return nil, err
	}
	w.validator, err = NewValidatorSmartContract(ArgsValidatorSmartContract{
		Eei:                      eei,
		SigVerifier:              &mock.MessageSignVerifierMock{},
		StakingSCConfig:          stakingCfg,
		StakingSCAddress:         vm.StakingSCAddress,
		EndOfEpochAddress:        vm.EndOfEpochAddress,
		ValidatorSCAddress:       vm.ValidatorSCAddress,
		GasCost:                  cfg.GasCost,
		Marshalizer:              w.marsh,
		GenesisTotalSupply:       big.NewInt(1000000000),
		EpochNotifier:            w.notifier,
		MinDeposit:               "0",
		DelegationMgrEnableEpoch: cfg.EnableEpochs.DelegationManagerEnableEpoch,
		DelegationMgrSCAddress:   vm.DelegationManagerSCAddress,
		GovernanceSCAddress:      vm.GovernanceSCAddress,
		EpochConfig:              epochCfg,
		ShardCoordinator:         &mock.ShardCoordinatorStub{},
	})
	if err != nil {
		return nil, err
	}
	w.contracts[string(vm.StakingSCAddress)] = w.staking
	w.contracts[string(vm.ValidatorSCAddress)] = w.validator

	if len(delegationAddrs) > 0 {
		w.delegation, err = NewDelegationSystemSC(ArgsNewDelegation{
			DelegationSCConfig:     config.DelegationSystemSCConfig{MinServiceFee: cfg.MinServiceFee, MaxServiceFee: cfg.MaxServiceFee},
			StakingSCConfig:        stakingCfg,
			Eei:                    eei,
			SigVerifier:            &mock.MessageSignVerifierMock{},
			DelegationMgrSCAddress: vm.DelegationManagerSCAddress,
			StakingSCAddress:       vm.StakingSCAddress,
			ValidatorSCAddress:     vm.ValidatorSCAddress,
			GasCost:                cfg.GasCost,
			Marshalizer:            w.marsh,
			EpochNotifier:          w.notifier,
			EndOfEpochAddress:      vm.EndOfEpochAddress,
			GovernanceSCAddress:    vm.GovernanceSCAddress,
			EpochConfig:            epochCfg,
		})
		if err != nil {
			return nil, err
		}
		// the hook stub has no accounts => vmContext.getCodeFromAddress falls back to the address itself,
		// so every delegation instance address maps to the one delegation contract object (as the real
		// container maps every instance's code to it)
		for _, a := range delegationAddrs {
			w.contracts[string(a)] = w.delegation
		}
	}
	return w, nil
}

// setEpoch moves to a later epoch (also advances the nonce) and notifies the contracts.
func (w *verifVMAWorld) setEpoch(e uint32) {
	w.epoch = e
	w.nonce += 5
	w.notifier.confirm(e)
}

// commitStorage writes one key of committed storage directly (genesis-like setup).
func (w *verifVMAWorld) commitStorage(addr, key, value []byte) {
	m := w.storage[string(addr)]
	if m == nil {
		m = map[string][]byte{}
		w.storage[string(addr)] = m
	}
	if len(value) == 0 {
		delete(m, string(key))
		return
	}
	m[string(key)] = append([]byte(nil), value...)
}

// verifVMAResult is what a "transaction" produced.
type verifVMAResult struct {
	Code    vmcommon.ReturnCode
	Message string
	Output  *vmcommon.VMOutput
}

// run executes one top-level call the way systemVM.RunSmartContractCall does, and commits the storage
// updates iff the return code is Ok (the SC processor drops the output of a failed call).
func (w *verifVMAWorld) run(caller, recipient []byte, function string, value *big.Int, args ...[]byte) (res verifVMAResult, err error) {
	w.nonce++
	input := &vmcommon.ContractCallInput{
		VMInput: vmcommon.VMInput{
			CallerAddr:  caller,
			Arguments:   args,
			CallValue:   new(big.Int).Set(value),
			GasProvided: 1000000,
		},
		RecipientAddr: recipient,
		Function:      function,
	}
	eei := w.eei
	eei.CleanCache()
	eei.SetSCAddress(recipient)
	eei.AddTxValueToSmartContract(input.CallValue, recipient)
	eei.SetGasProvided(input.GasProvided)
	contract, err := eei.GetContract(recipient)
	if err != nil {
		return res, err
	}
	code := contract.Execute(input)
	out := eei.CreateVMOutput()
	out.ReturnCode = code
	res = verifVMAResult{Code: code, Message: out.ReturnMessage, Output: out}
	if code == vmcommon.Ok {
		w.commitOutput(out)
	}
	eei.CleanCache()
	return res, nil
}

// runInit deploys a contract instance the way vmContext.DeploySystemSC does (Execute with the init
// function and the instance address as SC address).
func (w *verifVMAWorld) runInit(caller, recipient []byte, value *big.Int, args ...[]byte) (verifVMAResult, error) {
	return w.run(caller, recipient, core.SCDeployInitFunctionName, value, args...)
}

func (w *verifVMAWorld) commitOutput(out *vmcommon.VMOutput) {
	for _, acc := range out.OutputAccounts {
		for _, su := range acc.StorageUpdates {
			w.commitStorage(acc.Address, su.Offset, su.Data)
		}
	}
}

// transfersTo sums the value of the output transfers towards dest in a VM output.
func verifVMATransfersTo(out *vmcommon.VMOutput, dest []byte) *big.Int {
	sum := big.NewInt(0)
	if out == nil {
		return sum
	}
	acc, ok := out.OutputAccounts[string(dest)]
	if !ok {
		return sum
	}
	for _, t := range acc.OutputTransfers {
		sum.Add(sum, t.Value)
	}
	return sum
}

func verifVMASortedKeys(m map[string][]byte) []string {
	keys := make([]string, 0, len(m))
	for k := range m {
		keys = append(keys, k)
	}
	sort.Strings(keys)
	return keys
}

// verifVMAUserAddr builds a 32-byte user (non smart contract) address.
func verifVMAUserAddr(tag byte, i int) []byte {
	a := make([]byte, 32)
	for j := range a {
		a[j] = tag
	}
	a[0] = 1 // never a smart-contract address
	a[31] = byte(i)
	return a
}

// verifVMASCAddr builds a 32-byte address with the smart-contract prefix (8 zero bytes), distinct from
// all hard-coded system addresses.
func verifVMASCAddr(i int) []byte {
	a := make([]byte, 32)
	a[9] = 1
	a[28] = 2
	a[29] = byte(i)
	a[30] = 255
	a[31] = 255
	return a
}
