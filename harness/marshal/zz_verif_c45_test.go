package marshal_test

import (
	"bytes"
	"fmt"
	"math"
	"math/big"
	"reflect"
	"sort"
	"strings"
	"testing"

	"github.com/ElrondNetwork/elrond-go/consensus"
	"github.com/ElrondNetwork/elrond-go/core/dblookupext"
	"github.com/ElrondNetwork/elrond-go/data/batch"
	"github.com/ElrondNetwork/elrond-go/data/block"
	"github.com/ElrondNetwork/elrond-go/data/metrics"
	dataMock "github.com/ElrondNetwork/elrond-go/data/mock"
	"github.com/ElrondNetwork/elrond-go/data/receipt"
	"github.com/ElrondNetwork/elrond-go/data/rewardTx"
	"github.com/ElrondNetwork/elrond-go/data/smartContractResult"
	"github.com/ElrondNetwork/elrond-go/data/state"
	"github.com/ElrondNetwork/elrond-go/data/transaction"
	"github.com/ElrondNetwork/elrond-go/data/trie"
	"github.com/ElrondNetwork/elrond-go/dataRetriever"
	heartbeatData "github.com/ElrondNetwork/elrond-go/heartbeat/data"
	"github.com/ElrondNetwork/elrond-go/marshal"
	"github.com/ElrondNetwork/elrond-go/marshal/testSizeCheckUnmarshal"
	p2pData "github.com/ElrondNetwork/elrond-go/p2p/data"
	"github.com/ElrondNetwork/elrond-go/process/block/bootstrapStorage"
	kit "github.com/ElrondNetwork/elrond-go/verifkit"
	"github.com/ElrondNetwork/elrond-go/vm/systemSmartContracts"
	"pgregory.net/rapid"
)

// C45: Protocol data encodes deterministically and round-trips.
//
// A reflection-based, rapid-driven filler builds values of every generated gogo-proto message type
// of the repository (80 message types in 29 *.pb.go files). For each value x, through the production
// marshal.GogoProtoMarshalizer:
//   Marshal(x) twice gives the same bytes; x.Size() == len(bytes);
//   Unmarshal(bytes) into a fresh (or, in a quarter of the cases, a dirty pre-filled) object y succeeds;
//   the generated x.Equal(y) and y.Equal(x) hold, an independent reflect-based comparison finds no
//   differing field, and Marshal(y) == bytes;
//   the decoded y owns its data: after every byte of the buffer it was decoded from is overwritten, y still equals x
//   and encodes to the same bytes; after the slices returned by Marshal are overwritten, x and y are unchanged.
//
// Equality notion of the reflect-based comparison (documented domain facts of the wire format):
//   * a nil and an empty []byte / repeated field are the same value (proto3 omits both; the decoder
//     yields nil), and a nil element of a [][]byte equals an empty one (both are written as a
//     zero-length entry and decoded as an empty slice);
//   * *big.Int: nil, 0 and +-n are four distinct classes (the BigIntCaster writes nil as the single byte 0x00,
//     zero as 0x00 0x00, and sign+magnitude otherwise), all of them are generated;
//   * float32 is compared with == (so -0 == +0: the encoder omits -0 as a default value). NaN is not
//     generated: NaN != NaN makes the generated Equal irreflexive there, so "equal structure" is
//     undefined (domain restriction).
//   * repeated pointer fields ([]*T) never contain nil elements (domain restriction: the generated
//     MarshalToSizedBuffer dereferences them; no producer in the repository appends nil).

type verifC45Obj interface {
	marshal.GogoProtoObj
	Size() int
	Equal(that interface{}) bool
}

type verifC45Entry struct {
	name      string
	typ       reflect.Type // struct type
	hasBig    bool
	hasRepMsg bool
	nTop      int
	leaves    []verifC45FieldKey // all leaf fields reachable from this root (coverage self-check)
}

type verifC45FieldKey struct {
	root  string
	owner reflect.Type
	field int
}

var verifC45BigIntPtrType = reflect.TypeOf((*big.Int)(nil))

// implementations of oneof interface fields (reflection cannot enumerate them)
var verifC45OneofImpls = map[string][]reflect.Type{
	"metrics.isMetric_Value": {reflect.TypeOf(metrics.Metric_ValUint64{}), reflect.TypeOf(metrics.Metric_ValString{})},
}

var verifC45Groups = map[string][]verifC45Obj{
	"Tx": {
		&transaction.Transaction{}, &transaction.Log{}, &transaction.Event{},
		&receipt.Receipt{}, &rewardTx.RewardTx{}, &smartContractResult.SmartContractResult{},
	},
	"Block": {
		&block.MiniBlock{}, &block.MiniBlockHeader{}, &block.PeerChange{}, &block.Header{}, &block.Body{}, &block.BodyHeaderPair{},
		&block.PeerData{}, &block.ShardData{}, &block.EpochStartShardData{}, &block.Economics{}, &block.EpochStart{}, &block.MetaBlock{},
	},
	"State": {
		&state.UserAccountData{}, &state.CodeEntry{}, &state.PeerAccountData{}, &state.SignRate{}, &state.ValidatorApiResponse{},
		&state.ValidatorInfo{}, &state.ShardValidatorInfo{},
		&trie.CollapsedBn{}, &trie.CollapsedEn{}, &trie.CollapsedLn{},
		&batch.Batch{},
	},
	"Node": {
		&dblookupext.EpochByHash{}, &dblookupext.MiniblockMetadata{}, &dblookupext.ScResultsHashesAndEpoch{}, &dblookupext.ResultsHashesByTxHash{},
		&bootstrapStorage.MiniBlocksInMeta{}, &bootstrapStorage.BootstrapHeaderInfo{}, &bootstrapStorage.PendingMiniBlocksInfo{},
		&bootstrapStorage.BootstrapData{}, &bootstrapStorage.RoundNum{},
		&heartbeatData.Heartbeat{}, &heartbeatData.HeartbeatDTO{}, &heartbeatData.DbTimeStamp{},
		&consensus.Message{}, &dataRetriever.RequestData{},
		&p2pData.AuthMessagePb{}, &p2pData.TopicMessage{},
		&metrics.Metric{}, &metrics.MetricsList{},
		&dataMock.AccountWrapMockData{}, &testSizeCheckUnmarshal.TestStruct1{}, &testSizeCheckUnmarshal.TestStruct2{},
	},
	"SystemSC": {
		&systemSmartContracts.DelegationManagement{}, &systemSmartContracts.DelegationContractList{}, &systemSmartContracts.DelegationConfig{},
		&systemSmartContracts.DelegationMetaData{}, &systemSmartContracts.DelegationContractStatus{}, &systemSmartContracts.Fund{},
		&systemSmartContracts.DelegatorData{}, &systemSmartContracts.GlobalFundData{}, &systemSmartContracts.NodesData{},
		&systemSmartContracts.RewardComputationData{},
		&systemSmartContracts.ESDTData{}, &systemSmartContracts.ESDTRoles{}, &systemSmartContracts.ESDTConfig{},
		&systemSmartContracts.GeneralProposal{}, &systemSmartContracts.WhiteListProposal{}, &systemSmartContracts.HardForkProposal{},
		&systemSmartContracts.GovernanceConfig{}, &systemSmartContracts.GovernanceConfigV2{}, &systemSmartContracts.VoteDetails{},
		&systemSmartContracts.VoteSet{},
		&systemSmartContracts.StakedDataV1_0{}, &systemSmartContracts.StakedDataV1_1{}, &systemSmartContracts.StakedDataV2_0{},
		&systemSmartContracts.StakingNodesConfig{}, &systemSmartContracts.ElementInList{}, &systemSmartContracts.WaitingList{},
		&systemSmartContracts.ValidatorDataV1{}, &systemSmartContracts.UnstakedValue{}, &systemSmartContracts.ValidatorDataV2{},
		&systemSmartContracts.ValidatorConfig{},
	},
}

func verifC45TypeName(t reflect.Type) string {
	p := t.PkgPath()
	if i := strings.LastIndex(p, "/"); i >= 0 {
		p = p[i+1:]
	}
	if strings.HasSuffix(t.PkgPath(), "heartbeat/data") {
		p = "heartbeat"
	}
	if strings.HasSuffix(t.PkgPath(), "p2p/data") {
		p = "p2p"
	}
	return p + "." + t.Name()
}

func verifC45Entries(group string) []*verifC45Entry {
	var out []*verifC45Entry
	for _, p := range verifC45Groups[group] {
		t := reflect.TypeOf(p).Elem()
		e := &verifC45Entry{name: verifC45TypeName(t), typ: t, nTop: t.NumField()}
		verifC45WalkType(e, t)
		out = append(out, e)
	}
	return out
}

// verifC45WalkType enumerates the leaf fields of a message type (for the generator self-check) and
// panics on a field kind the filler does not know (so that a regenerated .pb.go with a new kind of
// field cannot silently stay unexercised).
func verifC45WalkType(e *verifC45Entry, t reflect.Type) {
	for i := 0; i < t.NumField(); i++ {
		f := t.Field(i)
		if f.PkgPath != "" || strings.HasPrefix(f.Name, "XXX_") {
			panic(fmt.Sprintf("verifC45: %s has an unexported/XXX field %s: not supported", t, f.Name))
		}
		ft := f.Type
		switch {
		case ft == verifC45BigIntPtrType:
			e.hasBig = true
			e.leaves = append(e.leaves, verifC45FieldKey{e.name, t, i})
		case ft.Kind() == reflect.Struct:
			verifC45WalkType(e, ft)
		case ft.Kind() == reflect.Slice && ft.Elem().Kind() == reflect.Struct:
			e.hasRepMsg = true
			verifC45WalkType(e, ft.Elem())
		case ft.Kind() == reflect.Slice && ft.Elem().Kind() == reflect.Ptr && ft.Elem().Elem().Kind() == reflect.Struct:
			e.hasRepMsg = true
			verifC45WalkType(e, ft.Elem().Elem())
		case ft.Kind() == reflect.Interface:
			impls := verifC45OneofImpls[verifC45TypeName(ft)]
			if len(impls) == 0 {
				panic(fmt.Sprintf("verifC45: no implementations registered for oneof interface %s", verifC45TypeName(ft)))
			}
			for _, it := range impls {
				verifC45WalkType(e, it)
			}
		case ft.Kind() == reflect.Slice && ft.Elem().Kind() == reflect.Uint8,
			ft.Kind() == reflect.Slice && ft.Elem().Kind() == reflect.Slice && ft.Elem().Elem().Kind() == reflect.Uint8,
			ft.Kind() == reflect.String, ft.Kind() == reflect.Bool, ft.Kind() == reflect.Float32,
			ft.Kind() == reflect.Uint32, ft.Kind() == reflect.Uint64, ft.Kind() == reflect.Int32, ft.Kind() == reflect.Int64, ft.Kind() == reflect.Int:
			e.leaves = append(e.leaves, verifC45FieldKey{e.name, t, i})
		default:
			panic(fmt.Sprintf("verifC45: field %s.%s has unsupported type %s", t, f.Name, ft))
		}
	}
}

// ---------------------------------------------------------------- generator

type verifC45Gen struct {
	rt      *rapid.T
	root    string
	fillPct int
	depth   int
	cov     map[verifC45FieldKey]int // nil = do not record

	topNonDefault int
	bigNonZero    int
	bigNil        int
	bigZero       int
	bigNeg        int
	repMsgElems   int
	badUTF8       int
	hugeBytes     int
	unknownEnum   int
}

func (g *verifC45Gen) u64() uint64 {
	rt := g.rt
	switch rapid.IntRange(0, 9).Draw(rt, "intKind") {
	case 0:
		return 0
	case 1, 2, 3: // varint length boundaries 2^(7k) + {-1,0,1}
		k := uint(rapid.IntRange(1, 9).Draw(rt, "vk"))
		d := rapid.IntRange(-1, 1).Draw(rt, "vd")
		return (uint64(1) << (7 * k)) + uint64(int64(d))
	case 4: // top of the ranges
		return math.MaxUint64 - uint64(rapid.IntRange(0, 2).Draw(rt, "top"))
	case 5: // 2^31, 2^32 neighbourhood
		k := uint(rapid.IntRange(31, 32).Draw(rt, "wk"))
		d := rapid.IntRange(-1, 1).Draw(rt, "wd")
		return (uint64(1) << k) + uint64(int64(d))
	case 6, 7:
		return uint64(rapid.IntRange(1, 300).Draw(rt, "small"))
	default:
		return rapid.Uint64().Draw(rt, "u64") >> uint(rapid.IntRange(0, 63).Draw(rt, "shift"))
	}
}

func (g *verifC45Gen) i64() int64 {
	if rapid.IntRange(0, 4).Draw(g.rt, "neg") == 0 {
		return -int64(rapid.IntRange(1, 300).Draw(g.rt, "negSmall"))
	}
	return int64(g.u64())
}

func (g *verifC45Gen) rawBytes(n int) []byte {
	b := make([]byte, n)
	if n == 0 {
		return b
	}
	first := rapid.Byte().Draw(g.rt, "b0")
	step := rapid.Byte().Draw(g.rt, "bstep")
	for i := range b {
		b[i] = first + byte(i)*step
	}
	return b
}

func (g *verifC45Gen) byteSlice() []byte {
	switch rapid.IntRange(0, 11).Draw(g.rt, "bytesKind") {
	case 0:
		return nil
	case 1:
		return []byte{}
	case 2: // length-prefix boundaries (1-byte / 2-byte varint, rarely 2-byte / 3-byte)
		if rapid.IntRange(0, 15).Draw(g.rt, "blenHuge") == 0 {
			g.hugeBytes++
			return g.rawBytes(rapid.IntRange(16382, 16386).Draw(g.rt, "blenH"))
		}
		return g.rawBytes(rapid.IntRange(126, 130).Draw(g.rt, "blenB"))
	case 3:
		return g.rawBytes(32)
	default:
		return g.rawBytes(rapid.IntRange(1, 40).Draw(g.rt, "blen"))
	}
}

func (g *verifC45Gen) str() string {
	switch rapid.IntRange(0, 5).Draw(g.rt, "strKind") {
	case 0:
		return ""
	case 1, 2:
		b := g.rawBytes(rapid.IntRange(1, 20).Draw(g.rt, "slen"))
		s := string(b)
		if strings.ToValidUTF8(s, "") != s {
			g.badUTF8++
		}
		return s
	default:
		return rapid.StringN(1, 12, 40).Draw(g.rt, "str")
	}
}

func (g *verifC45Gen) bigInt() *big.Int {
	rt := g.rt
	var v *big.Int
	switch rapid.IntRange(0, 9).Draw(rt, "bigKind") {
	case 0:
		g.bigNil++
		return nil
	case 1:
		v = big.NewInt(0)
	case 2, 3:
		v = big.NewInt(int64(rapid.IntRange(1, 300).Draw(rt, "bigSmall")))
	case 4, 5: // byte-length boundaries 2^(8k) + {-1,0,1}
		k := uint(rapid.IntRange(1, 33).Draw(rt, "bigK"))
		v = new(big.Int).Lsh(big.NewInt(1), 8*k)
		v.Add(v, big.NewInt(int64(rapid.IntRange(-1, 1).Draw(rt, "bigD"))))
	default:
		v = new(big.Int).SetBytes(g.rawBytes(rapid.IntRange(1, 40).Draw(rt, "bigLen")))
	}
	if v.Sign() != 0 && rapid.IntRange(0, 3).Draw(rt, "bigNeg") == 0 {
		v.Neg(v)
		g.bigNeg++
	}
	if v.Sign() == 0 {
		g.bigZero++
	} else {
		g.bigNonZero++
	}
	return v
}

func (g *verifC45Gen) repLen() int {
	switch k := rapid.IntRange(0, 9).Draw(g.rt, "repKind"); k {
	case 0, 1:
		return 0
	case 2, 3, 4:
		return 1
	case 5, 6:
		return 2
	case 7, 8:
		return 3
	default:
		return rapid.IntRange(4, 6).Draw(g.rt, "repLen")
	}
}

func (g *verifC45Gen) fillStruct(v reflect.Value) {
	t := v.Type()
	for i := 0; i < t.NumField(); i++ {
		if rapid.IntRange(0, 99).Draw(g.rt, "fill") >= g.fillPct {
			continue // field keeps its default value
		}
		before := g.depth
		nd := g.fillField(v.Field(i), verifC45FieldKey{g.root, t, i})
		if before == 0 && nd {
			g.topNonDefault++
		}
	}
}

// fillField sets one field; it reports whether the value is a non-default one on the wire.
func (g *verifC45Gen) fillField(fv reflect.Value, key verifC45FieldKey) bool {
	ft := fv.Type()
	nonDefault := false
	leaf := true
	switch {
	case ft == verifC45BigIntPtrType:
		b := g.bigInt()
		if b != nil {
			fv.Set(reflect.ValueOf(b))
		}
		nonDefault = b != nil && b.Sign() != 0
	case ft.Kind() == reflect.Struct:
		leaf = false
		g.depth++
		g.fillStruct(fv)
		g.depth--
		nonDefault = true
	case ft.Kind() == reflect.Slice && (ft.Elem().Kind() == reflect.Struct || ft.Elem().Kind() == reflect.Ptr):
		leaf = false
		n := g.repLen()
		if n == 0 && rapid.Bool().Draw(g.rt, "emptyNotNil") {
			fv.Set(reflect.MakeSlice(ft, 0, 0))
		}
		if n > 0 {
			s := reflect.MakeSlice(ft, n, n)
			g.depth++
			for j := 0; j < n; j++ {
				if ft.Elem().Kind() == reflect.Ptr {
					el := reflect.New(ft.Elem().Elem())
					g.fillStruct(el.Elem())
					s.Index(j).Set(el)
				} else {
					g.fillStruct(s.Index(j))
				}
			}
			g.depth--
			fv.Set(s)
			g.repMsgElems += n
			nonDefault = true
		}
	case ft.Kind() == reflect.Interface:
		leaf = false
		impls := verifC45OneofImpls[verifC45TypeName(ft)]
		k := rapid.IntRange(0, len(impls)).Draw(g.rt, "oneof")
		if k > 0 {
			el := reflect.New(impls[k-1])
			g.depth++
			save := g.fillPct
			g.fillPct = 90
			g.fillStruct(el.Elem())
			g.fillPct = save
			g.depth--
			fv.Set(el)
			nonDefault = true
		}
	case ft.Kind() == reflect.Slice && ft.Elem().Kind() == reflect.Uint8:
		b := g.byteSlice()
		if b != nil {
			fv.SetBytes(b)
		}
		nonDefault = len(b) > 0
	case ft.Kind() == reflect.Slice: // [][]byte
		n := g.repLen()
		if n == 0 && rapid.Bool().Draw(g.rt, "emptyNotNil") {
			fv.Set(reflect.MakeSlice(ft, 0, 0))
		}
		if n > 0 {
			s := make([][]byte, n)
			for j := range s {
				s[j] = g.byteSlice()
			}
			fv.Set(reflect.ValueOf(s))
			nonDefault = true
		}
	case ft.Kind() == reflect.String:
		s := g.str()
		fv.SetString(s)
		nonDefault = s != ""
	case ft.Kind() == reflect.Bool:
		b := rapid.IntRange(0, 3).Draw(g.rt, "bool") != 0
		fv.SetBool(b)
		nonDefault = b
	case ft.Kind() == reflect.Float32:
		bits := uint32(g.u64())
		if rapid.Bool().Draw(g.rt, "f32raw") {
			bits = rapid.Uint32().Draw(g.rt, "f32bits")
		}
		f := math.Float32frombits(bits)
		if f != f { // NaN -> infinity of the same sign (domain restriction, see header)
			f = math.Float32frombits(bits & 0xff800000)
		}
		fv.SetFloat(float64(f))
		nonDefault = f != 0
	case ft.Kind() == reflect.Uint32:
		x := uint32(g.u64())
		fv.SetUint(uint64(x))
		nonDefault = x != 0
	case ft.Kind() == reflect.Uint64:
		x := g.u64()
		fv.SetUint(x)
		nonDefault = x != 0
	case ft.Kind() == reflect.Int32:
		x := int32(g.i64())
		if ft.Name() != "int32" { // enum
			switch rapid.IntRange(0, 3).Draw(g.rt, "enumKind") {
			case 0:
				g.unknownEnum++
			default:
				x = int32(rapid.IntRange(0, 12).Draw(g.rt, "enum"))
			}
		}
		fv.SetInt(int64(x))
		nonDefault = x != 0
	case ft.Kind() == reflect.Int64, ft.Kind() == reflect.Int:
		x := g.i64()
		fv.SetInt(x)
		nonDefault = x != 0
	default:
		g.rt.Fatalf("fixture: unsupported field type %s", ft)
	}
	if leaf && nonDefault && g.cov != nil {
		g.cov[key]++
	}
	return nonDefault
}

// ---------------------------------------------------------------- independent comparison

// verifC45Diff returns "" if a and b hold the same protocol value, else the path of the first difference.
func verifC45Diff(a, b reflect.Value, path string) string {
	t := a.Type()
	switch {
	case t == verifC45BigIntPtrType:
		x, y := a.Interface().(*big.Int), b.Interface().(*big.Int)
		if (x == nil) != (y == nil) {
			return fmt.Sprintf("%s: big.Int %v vs %v", path, x, y)
		}
		if x != nil && x.Cmp(y) != 0 {
			return fmt.Sprintf("%s: big.Int %v vs %v", path, x, y)
		}
		return ""
	case t.Kind() == reflect.Ptr:
		if a.IsNil() != b.IsNil() {
			return path + ": nil vs non-nil"
		}
		if a.IsNil() {
			return ""
		}
		return verifC45Diff(a.Elem(), b.Elem(), path)
	case t.Kind() == reflect.Interface:
		if a.IsNil() != b.IsNil() {
			return path + ": oneof nil vs non-nil"
		}
		if a.IsNil() {
			return ""
		}
		if a.Elem().Type() != b.Elem().Type() {
			return fmt.Sprintf("%s: oneof %s vs %s", path, a.Elem().Type(), b.Elem().Type())
		}
		return verifC45Diff(a.Elem(), b.Elem(), path)
	case t.Kind() == reflect.Struct:
		for i := 0; i < t.NumField(); i++ {
			if d := verifC45Diff(a.Field(i), b.Field(i), path+"."+t.Field(i).Name); d != "" {
				return d
			}
		}
		return ""
	case t.Kind() == reflect.Slice && t.Elem().Kind() == reflect.Uint8:
		if !bytes.Equal(a.Bytes(), b.Bytes()) {
			return fmt.Sprintf("%s: bytes %x vs %x", path, a.Bytes(), b.Bytes())
		}
		return ""
	case t.Kind() == reflect.Slice:
		if a.Len() != b.Len() {
			return fmt.Sprintf("%s: %d vs %d elements", path, a.Len(), b.Len())
		}
		for i := 0; i < a.Len(); i++ {
			if d := verifC45Diff(a.Index(i), b.Index(i), fmt.Sprintf("%s[%d]", path, i)); d != "" {
				return d
			}
		}
		return ""
	case t.Kind() == reflect.String:
		if a.String() != b.String() {
			return fmt.Sprintf("%s: %q vs %q", path, a.String(), b.String())
		}
	case t.Kind() == reflect.Bool:
		if a.Bool() != b.Bool() {
			return fmt.Sprintf("%s: %v vs %v", path, a.Bool(), b.Bool())
		}
	case t.Kind() == reflect.Float32:
		if a.Float() != b.Float() && !(math.IsNaN(a.Float()) && math.IsNaN(b.Float())) { // NaN only reachable from fuzzed bytes
			return fmt.Sprintf("%s: %v vs %v", path, a.Float(), b.Float())
		}
	case t.Kind() == reflect.Uint32, t.Kind() == reflect.Uint64:
		if a.Uint() != b.Uint() {
			return fmt.Sprintf("%s: %d vs %d", path, a.Uint(), b.Uint())
		}
	case t.Kind() == reflect.Int32, t.Kind() == reflect.Int64, t.Kind() == reflect.Int:
		if a.Int() != b.Int() {
			return fmt.Sprintf("%s: %d vs %d", path, a.Int(), b.Int())
		}
	default:
		return path + ": unsupported kind " + t.String()
	}
	return ""
}

// ---------------------------------------------------------------- the check

func verifC45Describe(x interface{}) string {
	s := fmt.Sprintf("%+v", x)
	if len(s) > 900 {
		s = s[:900] + "…"
	}
	return s
}

func verifC45CheckValue(c *kit.Case, name string, x, y verifC45Obj) []byte {
	m := &marshal.GogoProtoMarshalizer{}
	k := func(slug string) string { return "C45:" + name + ":" + slug }
	var b1, b2, b3 []byte
	var err error
	c.NoPanic(k("marshal-panic"), func() { b1, err = m.Marshal(x) })
	if err != nil {
		c.Violation(k("marshal-error"), "Marshal failed: %v for %s", err, verifC45Describe(x))
	}
	c.NoPanic(k("marshal-panic"), func() { b2, err = m.Marshal(x) })
	if err != nil || !bytes.Equal(b1, b2) {
		c.Violation(k("nondeterministic"), "two Marshal calls differ: %x vs %x (err %v) for %s", b1, b2, err, verifC45Describe(x))
	}
	var size int
	c.NoPanic(k("size-panic"), func() { size = x.Size() })
	if size != len(b1) {
		c.Violation(k("size"), "Size() = %d, encoding has %d bytes, for %s", size, len(b1), verifC45Describe(x))
	}
	// the decode buffer is a separate "receive buffer" holding a copy of the encoding
	orig := append([]byte{}, b1...)
	buf := append([]byte{}, b1...)
	c.NoPanic(k("unmarshal-panic"), func() { err = m.Unmarshal(y, buf) })
	if err != nil {
		c.Violation(k("unmarshal-error"), "Unmarshal of own encoding %x failed: %v for %s", b1, err, verifC45Describe(x))
	}
	d := verifC45Diff(reflect.ValueOf(x), reflect.ValueOf(y), name)
	var eq1, eq2 bool
	c.NoPanic(k("equal-panic"), func() { eq1 = x.Equal(y); eq2 = y.Equal(x) })
	if !eq1 || !eq2 {
		c.Violation(k("not-equal"), "decoded value is not Equal to the original (x.Equal(y)=%v y.Equal(x)=%v, first difference %q); original %s; bytes %x", eq1, eq2, d, verifC45Describe(x), b1)
	}
	if d != "" {
		c.Violation(k("differs"), "decoded value differs from the original at %s although generated Equal says equal; original %s; bytes %x", d, verifC45Describe(x), b1)
	}
	c.NoPanic(k("marshal-panic"), func() { b3, err = m.Marshal(y) })
	if err != nil || !bytes.Equal(b1, b3) {
		c.Violation(k("remarshal"), "re-encoding of the decoded value differs: %x vs %x (err %v) for %s", b1, b3, err, verifC45Describe(x))
	}
	if y.Size() != len(b1) {
		c.Violation(k("size"), "Size() of decoded value = %d, encoding has %d bytes", y.Size(), len(b1))
	}
	// The decoded structure must own its data: the buffer it was decoded from is reused by its owner afterwards
	// (storageUnit.Unit.Get hands out the byte slice kept in its cache, Unit.Put keeps the slice it is given, p2p
	// message buffers outlive the interceptor call). Overwrite every byte of the decode buffer: y must still be
	// the structure that was encoded, and must still encode to the same bytes.
	verifC45Scribble(buf)
	if d = verifC45Diff(reflect.ValueOf(x), reflect.ValueOf(y), name); d != "" {
		c.Violation(k("decoded-aliases-buffer"), "the decoded value changed when the buffer it was decoded from was overwritten: %s; original %s", d, verifC45Describe(x))
	}
	var b4, b5 []byte
	c.NoPanic(k("marshal-panic"), func() { b4, err = m.Marshal(y) })
	if err != nil || !bytes.Equal(orig, b4) {
		c.Violation(k("decoded-aliases-buffer"), "after the decode buffer was overwritten the decoded value encodes to %x instead of %x (err %v); original %s", b4, orig, err, verifC45Describe(x))
	}
	// Likewise the bytes returned by Marshal belong to the caller (they are stored, sent, hashed): overwriting them
	// must change neither the encoded value nor the value decoded earlier.
	verifC45Scribble(b1)
	verifC45Scribble(b2)
	verifC45Scribble(b3)
	verifC45Scribble(b4)
	c.NoPanic(k("marshal-panic"), func() { b5, err = m.Marshal(x) })
	if err != nil || !bytes.Equal(orig, b5) {
		c.Violation(k("encoding-aliases-value"), "after the bytes returned by Marshal were overwritten the same value encodes to %x instead of %x (err %v); original %s", b5, orig, err, verifC45Describe(x))
	}
	if d = verifC45Diff(reflect.ValueOf(x), reflect.ValueOf(y), name); d != "" {
		c.Violation(k("encoding-aliases-value"), "a value changed when the bytes returned by Marshal were overwritten: %s; original %s", d, verifC45Describe(x))
	}
	return orig
}

// verifC45Scribble changes every byte of b in place.
func verifC45Scribble(b []byte) {
	for i := range b {
		b[i] ^= 0xa5
	}
}

func verifC45Mix(x uint64) uint64 {
	x += 0x9e3779b97f4a7c15
	x = (x ^ (x >> 30)) * 0xbf58476d1ce4e5b9
	x = (x ^ (x >> 27)) * 0x94d049bb133111eb
	return x ^ (x >> 31)
}

func verifC45RunGroup(t *testing.T, group string) {
	entries := verifC45Entries(group)
	cov := map[verifC45FieldKey]int{}
	perType := map[string]int{}
	kit.Run(t, "C45", kit.Budget{Quick: 1500 * len(entries), Thorough: 30000 * len(entries)},
		"group "+group+": a message type is drawn uniformly, every field (recursively) is filled with probability 10/50/85/100 % per case with boundary-biased integers, enums incl. unknown numbers, nil/empty/random bytes and strings (incl. invalid UTF-8), *big.Int nil/0/+-n up to 40 bytes, 0-6 repeated elements; non-trivial = at least half of the top-level fields non-default, and (where the type has them) >= 1 non-zero big.Int and >= 1 repeated message element; distinct by (type, encoding)",
		func(rt *rapid.T, c *kit.Case) {
			// rapid's integer generators favour small values; a bijective mix spreads the draw evenly over the types
			e := entries[verifC45Mix(rapid.Uint64().Draw(rt, "type"))%uint64(len(entries))]
			g := &verifC45Gen{rt: rt, root: e.name, cov: cov}
			g.fillPct = rapid.SampledFrom([]int{10, 50, 85, 85, 100}).Draw(rt, "fillPct")
			xv := reflect.New(e.typ)
			g.fillStruct(xv.Elem())
			x := xv.Interface().(verifC45Obj)
			yv := reflect.New(e.typ)
			dirty := rapid.IntRange(0, 3).Draw(rt, "dirtyTarget") == 0
			if dirty {
				// decode into an object that already holds other data: GogoProtoMarshalizer.Unmarshal resets it first
				g2 := &verifC45Gen{rt: rt, root: e.name, fillPct: 100}
				g2.fillStruct(yv.Elem())
				c.Class("dirty-target")
			}
			y := yv.Interface().(verifC45Obj)
			perType[e.name]++
			c.Class("type:" + e.name)
			if g.bigNil > 0 {
				c.Class("has-nil-bigint")
			}
			if g.bigZero > 0 {
				c.Class("has-zero-bigint")
			}
			if g.bigNeg > 0 {
				c.Class("has-negative-bigint")
			}
			if g.badUTF8 > 0 {
				c.Class("has-invalid-utf8-string")
			}
			if g.unknownEnum > 0 {
				c.Class("has-arbitrary-enum-number")
			}
			if g.repMsgElems > 0 {
				c.Class("has-repeated-message")
			}
			if g.hugeBytes > 0 {
				c.Class("has-16KiB-byte-string")
			}
			b := verifC45CheckValue(c, e.name, x, y)
			if len(b) == 0 {
				c.Class("empty-encoding")
			}
			if 2*g.topNonDefault >= e.nTop && (!e.hasBig || g.bigNonZero > 0) && (!e.hasRepMsg || g.repMsgElems > 0) {
				c.NonTrivial(e.name + string(b))
				c.Class("nontrivial:" + e.name)
				c.Sample("%s = %s -> %d bytes", e.name, verifC45Describe(x), len(b))
			}
		})
	// generator self-check: every leaf field of every type of the group got a non-default value at least once
	// (only meaningful once a type has had enough cases)
	var missing []string
	for _, e := range entries {
		if perType[e.name] < 200 {
			continue
		}
		for _, lk := range e.leaves {
			if cov[lk] == 0 {
				missing = append(missing, fmt.Sprintf("%s: %s.%s", e.name, lk.owner.Name(), lk.owner.Field(lk.field).Name))
			}
		}
	}
	if len(missing) > 0 && !t.Failed() {
		sort.Strings(missing)
		t.Fatalf("fixture: generator never produced a non-default value for fields %v", missing)
	}
}

func TestVerifC45_Tx(t *testing.T)       { verifC45RunGroup(t, "Tx") }
func TestVerifC45_Block(t *testing.T)    { verifC45RunGroup(t, "Block") }
func TestVerifC45_State(t *testing.T)    { verifC45RunGroup(t, "State") }
func TestVerifC45_Node(t *testing.T)     { verifC45RunGroup(t, "Node") }
func TestVerifC45_SystemSC(t *testing.T) { verifC45RunGroup(t, "SystemSC") }

// TestVerifC45_Inventory makes sure the type table covers what the design lists and has no duplicates.
func TestVerifC45_Inventory(t *testing.T) {
	seen := map[string]bool{}
	n := 0
	for g := range verifC45Groups {
		for _, e := range verifC45Entries(g) {
			if seen[e.name] {
				t.Fatalf("fixture: duplicate type %s", e.name)
			}
			seen[e.name] = true
			n++
		}
	}
	for _, must := range []string{"transaction.Transaction", "receipt.Receipt", "rewardTx.RewardTx", "smartContractResult.SmartContractResult",
		"transaction.Log", "block.Header", "block.MetaBlock", "block.EpochStart", "block.Economics", "block.MiniBlock", "block.Body",
		"block.PeerChange", "trie.CollapsedBn", "trie.CollapsedEn", "trie.CollapsedLn", "state.UserAccountData", "state.PeerAccountData",
		"state.ValidatorInfo", "state.ShardValidatorInfo", "state.CodeEntry", "batch.Batch", "dblookupext.MiniblockMetadata",
		"bootstrapStorage.BootstrapData", "heartbeat.Heartbeat", "consensus.Message", "systemSmartContracts.DelegationManagement",
		"systemSmartContracts.StakedDataV2_0", "systemSmartContracts.ValidatorDataV2", "systemSmartContracts.ESDTData", "systemSmartContracts.GeneralProposal"} {
		if !seen[must] {
			t.Fatalf("fixture: type %s missing from the table", must)
		}
	}
	if n != 80 {
		t.Fatalf("fixture: %d message types in the table, expected 80", n)
	}
}

// ---------------------------------------------------------------- regression table (runs in every tier)

// the BigIntCaster domain: nil, zero, and signed magnitudes each keep their class through a round trip.
func TestVerifC45_Regress(t *testing.T) {
	kit.Silence()
	m := &marshal.GogoProtoMarshalizer{}
	huge := new(big.Int).Lsh(big.NewInt(1), 300)
	for _, v := range []*big.Int{nil, big.NewInt(0), big.NewInt(1), big.NewInt(-1), big.NewInt(255), big.NewInt(256), big.NewInt(-256),
		huge, new(big.Int).Neg(huge)} {
		x := &transaction.Transaction{Nonce: 1, Value: v, RcvAddr: []byte("r"), SndAddr: []byte("s")}
		b, err := m.Marshal(x)
		if err != nil {
			kit.FailPlain(t, "C45", "C45:transaction.Transaction:marshal-error", "Value %v: %v", v, err)
		}
		y := &transaction.Transaction{}
		if err = m.Unmarshal(y, b); err != nil {
			kit.FailPlain(t, "C45", "C45:transaction.Transaction:unmarshal-error", "Value %v: %v", v, err)
		}
		if d := verifC45Diff(reflect.ValueOf(x), reflect.ValueOf(y), "Transaction"); d != "" {
			kit.FailPlain(t, "C45", "C45:transaction.Transaction:differs", "%s", d)
		}
		if x.Size() != len(b) {
			kit.FailPlain(t, "C45", "C45:transaction.Transaction:size", "Value %v: Size %d, %d bytes", v, x.Size(), len(b))
		}
	}
}

// ---------------------------------------------------------------- native fuzz targets (thorough tier; the seeds run in every tier)

func verifC45FuzzSeeds(f *testing.F, protos ...verifC45Obj) {
	f.Add([]byte{})
	f.Add([]byte{0x08, 0x01})
	f.Add([]byte{0x12, 0x02, 0x00, 0x05})
	for _, p := range protos {
		b, err := p.Marshal()
		if err != nil {
			f.Fatalf("fixture: %v", err)
		}
		f.Add(b)
	}
}

// verifC45FuzzOne: Unmarshal(data) must not panic; if it accepts, x encodes (b1), b1 decodes to an Equal
// value x1, and x1 encodes to b1 again (fixed point after one round).
func verifC45FuzzOne(t *testing.T, name string, newObj func() verifC45Obj, data []byte) {
	m := &marshal.GogoProtoMarshalizer{}
	k := func(slug string) string { return "C45:" + name + ":fuzz-" + slug }
	x := newObj()
	buf := append([]byte{}, data...) // private copy: it is overwritten below, the fuzz engine owns data
	var err error
	func() {
		defer func() {
			if r := recover(); r != nil {
				kit.FailPlain(t, "C45", k("unmarshal-panic"), "Unmarshal(%x) panics: %v", data, r)
			}
		}()
		err = m.Unmarshal(x, buf)
	}()
	if err != nil {
		return
	}
	var b1, b2 []byte
	x1 := newObj()
	func() {
		defer func() {
			if r := recover(); r != nil {
				kit.FailPlain(t, "C45", k("roundtrip-panic"), "value decoded from %x panics in Marshal/Unmarshal/Equal: %v", data, r)
			}
		}()
		b1, err = m.Marshal(x)
		if err != nil {
			kit.FailPlain(t, "C45", k("marshal-error"), "value decoded from %x does not encode: %v", data, err)
		}
		if x.Size() != len(b1) {
			kit.FailPlain(t, "C45", k("size"), "value decoded from %x: Size %d, encoding %d bytes", data, x.Size(), len(b1))
		}
		if err = m.Unmarshal(x1, b1); err != nil {
			kit.FailPlain(t, "C45", k("unmarshal-error"), "re-encoding %x of accepted input %x is rejected: %v", b1, data, err)
		}
		d := verifC45Diff(reflect.ValueOf(x), reflect.ValueOf(x1), name)
		if d != "" {
			kit.FailPlain(t, "C45", k("differs"), "accepted input %x: decoded value and its round trip differ at %s", data, d)
		}
		// the generated Equal compares float32 with ==, so it is false for a NaN decoded from fuzzed bytes: skip it then
		if !verifC45HasNaN(reflect.ValueOf(x)) && (!x.Equal(x1) || !x1.Equal(x)) {
			kit.FailPlain(t, "C45", k("not-equal"), "accepted input %x: generated Equal is false between the decoded value and its round trip", data)
		}
		b2, err = m.Marshal(x1)
		if err != nil || !bytes.Equal(b1, b2) {
			kit.FailPlain(t, "C45", k("no-fixed-point"), "accepted input %x: first re-encoding %x, second %x (err %v)", data, b1, b2, err)
		}
		// the decoded value owns its data: overwriting the buffer it came from does not change it
		verifC45Scribble(buf)
		b3, err3 := m.Marshal(x)
		if err3 != nil || !bytes.Equal(b1, b3) {
			kit.FailPlain(t, "C45", k("decoded-aliases-buffer"), "accepted input %x: after the decode buffer was overwritten the decoded value encodes to %x instead of %x (err %v)", data, b3, b1, err3)
		}
	}()
}

func verifC45HasNaN(v reflect.Value) bool {
	switch v.Kind() {
	case reflect.Float32:
		return math.IsNaN(v.Float())
	case reflect.Ptr, reflect.Interface:
		if v.IsNil() || v.Type() == verifC45BigIntPtrType {
			return false
		}
		return verifC45HasNaN(v.Elem())
	case reflect.Struct:
		for i := 0; i < v.NumField(); i++ {
			if verifC45HasNaN(v.Field(i)) {
				return true
			}
		}
	case reflect.Slice:
		if v.Type().Elem().Kind() == reflect.Uint8 {
			return false
		}
		for i := 0; i < v.Len(); i++ {
			if verifC45HasNaN(v.Index(i)) {
				return true
			}
		}
	}
	return false
}

func verifC45AllEntries() []*verifC45Entry {
	var all []*verifC45Entry
	for _, g := range []string{"Tx", "Block", "State", "Node", "SystemSC"} {
		all = append(all, verifC45Entries(g)...)
	}
	return all
}

// FuzzVerifC45_AnyType fuzzes Unmarshal of every message type: the first input byte selects the type.
// Seeds: two generated values per type (the rapid filler, fixed example seeds).
func FuzzVerifC45_AnyType(f *testing.F) {
	kit.Silence()
	all := verifC45AllEntries()
	for i, e := range all {
		e := e
		gen := rapid.Custom(func(rt *rapid.T) []byte {
			g := &verifC45Gen{rt: rt, root: e.name, fillPct: 85}
			xv := reflect.New(e.typ)
			g.fillStruct(xv.Elem())
			b, err := xv.Interface().(verifC45Obj).Marshal()
			if err != nil {
				rt.Fatalf("fixture: %v", err)
			}
			return b
		})
		for s := 0; s < 2; s++ {
			f.Add(append([]byte{byte(i)}, gen.Example(1000*s+i)...))
		}
	}
	f.Fuzz(func(t *testing.T, data []byte) {
		if len(data) == 0 {
			return
		}
		e := all[int(data[0])%len(all)]
		verifC45FuzzOne(t, e.name, func() verifC45Obj { return reflect.New(e.typ).Interface().(verifC45Obj) }, data[1:])
	})
}

func FuzzVerifC45_Transaction(f *testing.F) {
	kit.Silence()
	verifC45FuzzSeeds(f, &transaction.Transaction{Nonce: 7, Value: big.NewInt(-5), RcvAddr: []byte("rcv"), SndAddr: []byte("snd"),
		GasPrice: 1 << 40, GasLimit: 50000, Data: []byte("data@01"), ChainID: []byte("1"), Version: 1, Signature: bytes.Repeat([]byte{9}, 64), Options: 1})
	f.Fuzz(func(t *testing.T, data []byte) {
		verifC45FuzzOne(t, "transaction.Transaction", func() verifC45Obj { return &transaction.Transaction{} }, data)
	})
}

func FuzzVerifC45_MiniBlock(f *testing.F) {
	kit.Silence()
	verifC45FuzzSeeds(f, &block.MiniBlock{TxHashes: [][]byte{[]byte("h1"), {}, []byte("h3")}, ReceiverShardID: 1, SenderShardID: 0xffffffff,
		Type: block.SmartContractResultBlock, Reserved: []byte{1}})
	f.Fuzz(func(t *testing.T, data []byte) {
		verifC45FuzzOne(t, "block.MiniBlock", func() verifC45Obj { return &block.MiniBlock{} }, data)
	})
}

func FuzzVerifC45_Header(f *testing.F) {
	kit.Silence()
	verifC45FuzzSeeds(f, &block.Header{Nonce: 3, PrevHash: []byte("prev"), RandSeed: []byte("rs"), ShardID: 2, TimeStamp: 1 << 33, Round: 9, Epoch: 1,
		BlockBodyType: block.TxBlock, Signature: []byte("sig"), PubKeysBitmap: []byte{0xff},
		MiniBlockHeaders: []block.MiniBlockHeader{{Hash: []byte("mb"), SenderShardID: 1, ReceiverShardID: 2, TxCount: 3, Type: block.TxBlock}},
		PeerChanges:      []block.PeerChange{{PubKey: []byte("pk"), ShardIdDest: 1}},
		RootHash:         []byte("root"), MetaBlockHashes: [][]byte{[]byte("m1"), []byte("m2")}, TxCount: 3, ChainID: []byte("1"),
		AccumulatedFees: big.NewInt(100), DeveloperFees: big.NewInt(0)})
	f.Fuzz(func(t *testing.T, data []byte) {
		verifC45FuzzOne(t, "block.Header", func() verifC45Obj { return &block.Header{} }, data)
	})
}

func FuzzVerifC45_MetaBlock(f *testing.F) {
	kit.Silence()
	verifC45FuzzSeeds(f, &block.MetaBlock{Nonce: 3, Epoch: 2, Round: 10, TimeStamp: 77,
		ShardInfo: []block.ShardData{{HeaderHash: []byte("hh"), ShardID: 1, Nonce: 2, AccumulatedFees: big.NewInt(3), DeveloperFees: big.NewInt(1),
			ShardMiniBlockHeaders: []block.MiniBlockHeader{{Hash: []byte("mb"), TxCount: 1}}}},
		PeerInfo:  []block.PeerData{{Address: []byte("a"), PublicKey: []byte("p"), Action: block.PeerRegistration, ValueChange: big.NewInt(-7)}},
		Signature: []byte("s"), PrevHash: []byte("p"), RootHash: []byte("r"), ValidatorStatsRootHash: []byte("v"),
		MiniBlockHeaders: []block.MiniBlockHeader{{Hash: []byte("x")}},
		EpochStart: block.EpochStart{LastFinalizedHeaders: []block.EpochStartShardData{{ShardID: 1, Epoch: 1, HeaderHash: []byte("h"),
			PendingMiniBlockHeaders: []block.MiniBlockHeader{{Hash: []byte("pmb")}}}},
			Economics: block.Economics{TotalSupply: big.NewInt(1 << 40), TotalToDistribute: big.NewInt(5), NodePrice: big.NewInt(2500)}},
		ChainID: []byte("1"), AccumulatedFees: big.NewInt(1), AccumulatedFeesInEpoch: big.NewInt(2), DeveloperFees: big.NewInt(3), DevFeesInEpoch: big.NewInt(4), TxCount: 9})
	f.Fuzz(func(t *testing.T, data []byte) {
		verifC45FuzzOne(t, "block.MetaBlock", func() verifC45Obj { return &block.MetaBlock{} }, data)
	})
}
