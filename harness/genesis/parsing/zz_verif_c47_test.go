package parsing_test

import (
	"bytes"
	"encoding/hex"
	"encoding/json"
	"fmt"
	"math/big"
	"os"
	"path/filepath"
	"strings"
	"testing"

	"github.com/ElrondNetwork/elrond-go/core"
	"github.com/ElrondNetwork/elrond-go/core/pubkeyConverter"
	"github.com/ElrondNetwork/elrond-go/genesis/mock"
	"github.com/ElrondNetwork/elrond-go/genesis/parsing"
	kit "github.com/ElrondNetwork/elrond-go/verifkit"
	"pgregory.net/rapid"
)

// C47: Accepted genesis configuration accounts for the whole supply.
//
// The harness writes a genesis accounts JSON file, keeps its own model of what it wrote (bytes of every
// address, amounts) and, whenever NewAccountsParser accepts the file, evaluates the four conditions of the
// statement on the model - never on the parser's own data.

type verifC47Entry struct {
	addrBytes []byte // nil: the text is not an address at all
	addrText  string
	supply    *big.Int
	balance   *big.Int
	staking   *big.Int
	delegVal  *big.Int
	delegAddr string
}

type verifC47File struct {
	entries   []*verifC47Entry
	total     *big.Int
	hexConv   bool
	emptyForm string // text of a file without entries
}

func (f *verifC47File) json() []byte {
	type dd struct {
		Address string `json:"address"`
		Value   string `json:"value"`
	}
	type ia struct {
		Address      string `json:"address"`
		Supply       string `json:"supply"`
		Balance      string `json:"balance"`
		StakingValue string `json:"stakingvalue"`
		Delegation   dd     `json:"delegation"`
	}
	if len(f.entries) == 0 && f.emptyForm != "" {
		return []byte(f.emptyForm)
	}
	out := make([]ia, 0, len(f.entries))
	for _, e := range f.entries {
		out = append(out, ia{e.addrText, e.supply.String(), e.balance.String(), e.staking.String(), dd{e.delegAddr, e.delegVal.String()}})
	}
	b, _ := json.MarshalIndent(out, "", " ")
	return b
}

func (f *verifC47File) String() string {
	var sb strings.Builder
	fmt.Fprintf(&sb, "total=%s hex=%v entries=%d", f.total, f.hexConv, len(f.entries))
	if len(f.entries) == 0 {
		fmt.Fprintf(&sb, " file text %q", f.emptyForm)
	}
	for i, e := range f.entries {
		fmt.Fprintf(&sb, "\n  [%d] addr=%q (bytes %x) supply=%s balance=%s staking=%s delegation=%s->%q", i, e.addrText, e.addrBytes, e.supply, e.balance, e.staking, e.delegVal, e.delegAddr)
	}
	return sb.String()
}

// the protocol's smart contract address convention: 8 leading zero bytes (this includes the all-zero address)
func verifC47IsSC(b []byte) bool {
	return len(b) == 32 && bytes.Equal(b[:8], make([]byte, 8))
}

func verifC47Amount(rt *rapid.T, label string) *big.Int {
	switch rapid.IntRange(0, 5).Draw(rt, label+"Kind") {
	case 0:
		return big.NewInt(0)
	case 1:
		return big.NewInt(int64(rapid.IntRange(1, 10).Draw(rt, label+"Small")))
	case 2: // realistic: n * 10^18
		v := big.NewInt(int64(rapid.IntRange(1, 20000000).Draw(rt, label+"Egld")))
		return v.Mul(v, big.NewInt(0).Exp(big.NewInt(10), big.NewInt(18), nil))
	case 3: // beyond 64 bits
		v := big.NewInt(0).SetUint64(rapid.Uint64().Draw(rt, label+"Hi"))
		v.Lsh(v, 64)
		return v.Add(v, big.NewInt(0).SetUint64(rapid.Uint64().Draw(rt, label+"Lo")))
	default:
		return big.NewInt(0).SetUint64(rapid.Uint64().Draw(rt, label+"U64"))
	}
}

type verifC47Convs struct {
	bech32 core.PubkeyConverter
	hex    core.PubkeyConverter
}

func (cv *verifC47Convs) text(hexConv bool, b []byte) string {
	if hexConv {
		return hex.EncodeToString(b)
	}
	return cv.bech32.Encode(b)
}

func verifC47GenAddr(rt *rapid.T, label string, used map[string]bool) []byte {
	for try := 0; ; try++ {
		b := rapid.SliceOfN(rapid.Byte(), 32, 32).Draw(rt, fmt.Sprintf("%s_%d", label, try))
		if verifC47IsSC(b) {
			b[0] |= 1
		}
		if !used[string(b)] {
			used[string(b)] = true
			return b
		}
		if try > 20 {
			rt.Fatalf("fixture: cannot draw a fresh address")
		}
		// after shrinking all draws tend to zero: derive a fresh one deterministically
		b[31] = byte(len(used))
		b[30] = byte(try + 1)
		if !used[string(b)] {
			used[string(b)] = true
			return b
		}
	}
}

func verifC47GenValidEntry(rt *rapid.T, cv *verifC47Convs, hexConv bool, i int, used map[string]bool) *verifC47Entry {
	lbl := fmt.Sprintf("e%d", i)
	e := &verifC47Entry{}
	e.addrBytes = verifC47GenAddr(rt, lbl+"addr", used)
	e.addrText = cv.text(hexConv, e.addrBytes)
	e.balance = verifC47Amount(rt, lbl+"bal")
	e.staking = verifC47Amount(rt, lbl+"stk")
	e.delegVal = big.NewInt(0)
	if rapid.IntRange(0, 2).Draw(rt, lbl+"hasDeleg") == 0 {
		e.delegVal = verifC47Amount(rt, lbl+"dlg")
	}
	if e.delegVal.Sign() > 0 || rapid.IntRange(0, 3).Draw(rt, lbl+"delegAddrAnyway") == 0 {
		// genesis delegation contracts are smart contract addresses
		da := rapid.SliceOfN(rapid.Byte(), 32, 32).Draw(rt, lbl+"delegAddr")
		if rapid.Bool().Draw(rt, lbl+"delegSC") {
			copy(da, make([]byte, 8))
		}
		e.delegAddr = cv.text(hexConv, da)
	}
	e.supply = big.NewInt(0).Add(e.balance, e.staking)
	e.supply.Add(e.supply, e.delegVal)
	if e.supply.Sign() == 0 {
		e.balance = big.NewInt(1)
		e.supply = big.NewInt(1)
	}
	return e
}

// other spelling of an address text that the converter decodes to the same bytes
func verifC47OtherSpelling(rt *rapid.T, s string, hexConv bool) (string, string) {
	if !hexConv {
		return strings.ToUpper(s), "upper-case"
	}
	switch rapid.IntRange(0, 1).Draw(rt, "hexSpelling") {
	case 0:
		if up := strings.ToUpper(s); up != s {
			return up, "upper-case"
		}
	}
	// one letter in the other case
	idx := []int{}
	for i := 0; i < len(s); i++ {
		if s[i] >= 'a' && s[i] <= 'f' {
			idx = append(idx, i)
		}
	}
	if len(idx) == 0 {
		return s, "identical"
	}
	p := idx[rapid.IntRange(0, len(idx)-1).Draw(rt, "mixAt")]
	return s[:p] + strings.ToUpper(s[p:p+1]) + s[p+1:], "mixed-case"
}

func verifC47Run(t *testing.T, quick, thorough int) {
	b32, err := pubkeyConverter.NewBech32PubkeyConverter(32)
	if err != nil {
		t.Fatalf("fixture: %v", err)
	}
	h32, err := pubkeyConverter.NewHexPubkeyConverter(32)
	if err != nil {
		t.Fatalf("fixture: %v", err)
	}
	cv := &verifC47Convs{bech32: b32, hex: h32}
	keyGen := &mock.KeyGeneratorStub{CheckPublicKeyValidCalled: func(b []byte) error {
		if len(b) != 32 {
			return fmt.Errorf("invalid public key length %d", len(b))
		}
		return nil
	}}
	path := filepath.Join(t.TempDir(), "genesis.json")
	validRejected, validAccepted, firstValidRejected := 0, 0, ""

	kit.Run(t, "C47", kit.Budget{Quick: quick, Thorough: thorough},
		"0 (1/12: file text [] or null, any positive total) or 1-8 entries built valid (distinct non-contract addresses, supply = balance+staking+delegation > 0, total = sum) then 0-2 corruptions (supply off, total off by a small delta or by an unrelated amount, contract address, duplicate address as identical / upper-case / mixed-case text, negative or zero amounts, garbage address, delegation without address); bech32 (3/4) or hex (1/4) converter; accepted => the four conditions of the statement hold on the harness' model; non-trivial = accepted file with >=3 entries incl. a delegation, or a file with exactly one corruption; distinct by file text",
		func(rt *rapid.T, c *kit.Case) {
			f := &verifC47File{hexConv: rapid.IntRange(0, 3).Draw(rt, "hexConv") == 0}
			// the file is whatever the operator put into genesis.json: an empty list ("[]", "null") is a
			// syntactically valid accounts file as well
			n := 0
			if rapid.IntRange(0, 11).Draw(rt, "noEntries") != 0 {
				n = rapid.IntRange(1, 8).Draw(rt, "n")
			}
			used := map[string]bool{}
			for i := 0; i < n; i++ {
				f.entries = append(f.entries, verifC47GenValidEntry(rt, cv, f.hexConv, i, used))
			}
			totalDelta := big.NewInt(0)
			nCorr := rapid.SampledFrom([]int{0, 1, 1, 1, 2}).Draw(rt, "nCorr")
			var corr []string
			if n == 0 {
				// no entry can be corrupted; the file itself cannot account for a (necessarily positive) total
				nCorr = 0
				corr = append(corr, "no-entries")
				f.emptyForm = rapid.SampledFrom([]string{"[]", "null", "[\n]\n", " [ ] "}).Draw(rt, "emptyForm")
				totalDelta = verifC47Amount(rt, "emptyTotal")
			}
			noClaim := false // corruption outside the statement (rejection expected, nothing asserted)
			for k := 0; k < nCorr; k++ {
				i := rapid.IntRange(0, len(f.entries)-1).Draw(rt, "corrAt")
				e := f.entries[i]
				switch kind := rapid.IntRange(0, 8).Draw(rt, "corrKind"); kind {
				case 0: // supply != sum of components
					d := rapid.SampledFrom([]int64{1, -1, 2, 1000, -1000}).Draw(rt, "supplyDelta")
					ns := big.NewInt(0).Add(e.supply, big.NewInt(d))
					if ns.Sign() <= 0 {
						ns = big.NewInt(0).Add(e.supply, big.NewInt(1))
					}
					e.supply = ns
					corr = append(corr, "supply-mismatch")
				case 1: // total != sum of supplies
					if rapid.IntRange(0, 3).Draw(rt, "totalUnrelated") == 0 {
						// an unrelated configured total (economics.toml and genesis.json are separate files)
						d := verifC47Amount(rt, "totalOther")
						if d.Sign() == 0 {
							d = big.NewInt(1)
						}
						if rapid.Bool().Draw(rt, "totalOtherNeg") {
							d.Neg(d)
						}
						totalDelta.Add(totalDelta, d)
					} else {
						totalDelta.Add(totalDelta, big.NewInt(rapid.SampledFrom([]int64{1, -1, 7, -1000000}).Draw(rt, "totalDelta")))
					}
					corr = append(corr, "total-mismatch")
				case 2: // smart contract address
					b := append([]byte{}, e.addrBytes...)
					copy(b, make([]byte, 8))
					if rapid.IntRange(0, 4).Draw(rt, "allZero") == 0 {
						b = make([]byte, 32)
					}
					e.addrBytes, e.addrText = b, cv.text(f.hexConv, b)
					corr = append(corr, "contract-address")
				case 3, 4, 5: // duplicate address: a further valid entry denoting the address of entry i
					d := verifC47GenValidEntry(rt, cv, f.hexConv, 100+k, used)
					d.addrBytes = e.addrBytes
					how := "identical"
					d.addrText = e.addrText
					if kind != 3 && e.addrBytes != nil {
						d.addrText, how = verifC47OtherSpelling(rt, e.addrText, f.hexConv)
					}
					at := rapid.IntRange(0, len(f.entries)).Draw(rt, "dupAt")
					f.entries = append(f.entries[:at], append([]*verifC47Entry{d}, f.entries[at:]...)...)
					corr = append(corr, "duplicate-"+how)
				case 6: // negative / zero amounts with a consistent sum (outside the statement: no claim)
					d := big.NewInt(int64(rapid.IntRange(1, 5).Draw(rt, "neg")))
					switch rapid.IntRange(0, 3).Draw(rt, "negWhich") {
					case 0:
						e.balance = big.NewInt(0).Neg(d)
						e.staking = big.NewInt(0).Add(e.staking, big.NewInt(0).Mul(d, big.NewInt(2)))
						e.supply = big.NewInt(0).Add(big.NewInt(0).Add(e.balance, e.staking), e.delegVal)
					case 1:
						e.staking = big.NewInt(0).Neg(d)
						e.supply = big.NewInt(0).Add(big.NewInt(0).Add(e.balance, e.staking), e.delegVal)
					case 2:
						e.delegVal = big.NewInt(0).Neg(d)
						if e.delegAddr == "" {
							e.delegAddr = cv.text(f.hexConv, make([]byte, 32))
						}
						e.supply = big.NewInt(0).Add(big.NewInt(0).Add(e.balance, e.staking), e.delegVal)
					default:
						e.balance, e.staking, e.delegVal, e.supply = big.NewInt(0), big.NewInt(0), big.NewInt(0), big.NewInt(0)
					}
					noClaim = true
					corr = append(corr, "nonpositive-amount")
				case 7: // not an address
					short := e.addrText
					if len(short) > 0 {
						short = short[:len(short)-1]
					}
					e.addrText = rapid.SampledFrom([]string{"", "erd1", "garbage", short, e.addrText + "q", "0x" + e.addrText}).Draw(rt, "garbage")
					e.addrBytes = nil
					noClaim = true
					corr = append(corr, "garbage-address")
				default: // delegated value without delegation address
					if e.delegVal.Sign() == 0 {
						e.delegVal = big.NewInt(5)
						e.supply = big.NewInt(0).Add(e.supply, e.delegVal)
					}
					e.delegAddr = ""
					noClaim = true
					corr = append(corr, "delegation-without-address")
				}
			}
			f.total = big.NewInt(0)
			for _, e := range f.entries {
				f.total.Add(f.total, e.supply)
			}
			f.total.Add(f.total, totalDelta)
			if f.total.Sign() <= 0 {
				// NewAccountsParser refuses a configured total <= 0 before it reads the file
				c.Class("total-forced-positive")
				f.total = big.NewInt(1)
			}
			text := f.json()
			if werr := os.WriteFile(path, text, 0o644); werr != nil {
				rt.Fatalf("fixture: %v", werr)
			}
			conv := cv.bech32
			if f.hexConv {
				conv = cv.hex
			}
			var perr error
			c.NoPanic("C47:panic", func() { _, perr = parsing.NewAccountsParser(path, f.total, conv, keyGen) })
			for _, k := range corr {
				c.Class("corruption:" + k)
			}
			if len(corr) == 0 {
				c.Class("uncorrupted")
			}
			if perr != nil {
				c.Class("rejected")
				if len(corr) == 0 {
					// generator health: a file built valid should be accepted. This is not a claim of the
					// statement ("accepted only if"), so it is not a violation; it is reported after the search.
					c.Class("uncorrupted-rejected")
					validRejected++
					if firstValidRejected == "" {
						firstValidRejected = fmt.Sprintf("%v\n%s", perr, f)
					}
				}
				if len(corr) == 1 && !noClaim {
					c.NonTrivial(string(text))
				}
				return
			}
			c.Class("accepted")
			if len(corr) == 0 {
				validAccepted++
			}

			// ---- the file was accepted: evaluate the statement on the model
			sum := big.NewInt(0)
			hasDeleg := false
			for i, e := range f.entries {
				comp := big.NewInt(0).Add(e.balance, e.staking)
				comp.Add(comp, e.delegVal)
				if comp.Cmp(e.supply) != 0 {
					c.Violation("C47:accepted-supply-mismatch", "accepted although entry %d has supply %s != balance+staking+delegation %s\n%s", i, e.supply, comp, f)
				}
				if e.addrBytes != nil && verifC47IsSC(e.addrBytes) {
					c.Violation("C47:accepted-contract-address", "accepted although entry %d is a smart contract address %x\n%s", i, e.addrBytes, f)
				}
				if e.delegVal.Sign() > 0 {
					hasDeleg = true
				}
				sum.Add(sum, e.supply)
			}
			if sum.Cmp(f.total) != 0 {
				c.Violation("C47:accepted-total-mismatch", "accepted although supplies add up to %s and the configured total is %s\n%s", sum, f.total, f)
			}
			for i := 0; i < len(f.entries); i++ {
				for j := i + 1; j < len(f.entries); j++ {
					a, b := f.entries[i], f.entries[j]
					if a.addrBytes == nil || b.addrBytes == nil || !bytes.Equal(a.addrBytes, b.addrBytes) {
						continue
					}
					if a.addrText == b.addrText {
						c.Violation("C47:accepted-duplicate-identical", "accepted although entries %d and %d are the same address %q\n%s", i, j, a.addrText, f)
					}
					c.Violation("C47:accepted-duplicate-other-spelling", "accepted although entries %d and %d denote the same address %x: %q and %q\n%s", i, j, a.addrBytes, a.addrText, b.addrText, f)
				}
			}
			if len(corr) > 0 && !noClaim {
				// every statement-level corruption must have been caught above; reaching here means the
				// corruption was neutralised by a second one (e.g. two total deltas cancelling)
				c.Class("accepted-after-cancelling-corruptions")
			}
			if len(f.entries) >= 3 && hasDeleg {
				c.NonTrivial(string(text))
				c.Sample("%s", f)
			}
		})
	if t.Failed() {
		return
	}
	if validRejected > 0 || validAccepted == 0 {
		t.Fatalf("fixture: generator health: %d files built valid were rejected, %d accepted; first: %s", validRejected, validAccepted, firstValidRejected)
	}
}

func TestVerifC47_AcceptedFilesAccountForSupply(t *testing.T) {
	verifC47Run(t, 3000, 30000)
}

// regression: the minimal counterexamples found for the duplicate check (suspected defect 21).
func TestVerifC47_Regress(t *testing.T) {
	kit.Silence()
	verifC47RegressNoEntries(t)
	b32, _ := pubkeyConverter.NewBech32PubkeyConverter(32)
	h32, _ := pubkeyConverter.NewHexPubkeyConverter(32)
	keyGen := &mock.KeyGeneratorStub{}
	dir := t.TempDir()
	addr := bytes.Repeat([]byte{0x01}, 32)
	for name, tc := range map[string]struct {
		conv core.PubkeyConverter
		a, b string
	}{
		"bech32-upper": {b32, b32.Encode(addr), strings.ToUpper(b32.Encode(addr))},
		"hex-upper":    {h32, strings.Repeat("ab", 32), strings.Repeat("AB", 32)},
		"hex-mixed":    {h32, strings.Repeat("ab", 32), "aB" + strings.Repeat("ab", 31)},
	} {
		text := fmt.Sprintf(`[{"address":%q,"supply":"1","balance":"1","stakingvalue":"0","delegation":{"address":"","value":"0"}},
{"address":%q,"supply":"1","balance":"1","stakingvalue":"0","delegation":{"address":"","value":"0"}}]`, tc.a, tc.b)
		p := filepath.Join(dir, name+".json")
		if err := os.WriteFile(p, []byte(text), 0o644); err != nil {
			t.Fatalf("fixture: %v", err)
		}
		_, err := parsing.NewAccountsParser(p, big.NewInt(2), tc.conv, keyGen)
		if err == nil {
			kit.FailPlain(t, "C47", "C47:accepted-duplicate-other-spelling", "%s: accepted two entries %q and %q of the same address, total 2", name, tc.a, tc.b)
		}
	}
}

// boundary: a file without entries cannot add up to a configured total, which is always > 0
func verifC47RegressNoEntries(t *testing.T) {
	b32, _ := pubkeyConverter.NewBech32PubkeyConverter(32)
	dir := t.TempDir()
	for i, text := range []string{"[]", "null"} {
		p := filepath.Join(dir, fmt.Sprintf("empty%d.json", i))
		if err := os.WriteFile(p, []byte(text), 0o644); err != nil {
			t.Fatalf("fixture: %v", err)
		}
		if _, err := parsing.NewAccountsParser(p, big.NewInt(1), b32, &mock.KeyGeneratorStub{}); err == nil {
			kit.FailPlain(t, "C47", "C47:accepted-total-mismatch", "file %q (no entries) accepted with configured total supply 1", text)
		}
	}
}
