package throttler_test

import (
	"fmt"
	"strings"
	"sync"
	"sync/atomic"
	"testing"

	"github.com/ElrondNetwork/elrond-go/core/throttler"
	kit "github.com/ElrondNetwork/elrond-go/verifkit"
	"pgregory.net/rapid"
)

// C43: Goroutine throttler bounds concurrent work.
//
// CanProcess, StartProcessing and EndProcessing are each one atomic operation on one counter, so every
// concurrent execution of callers is equivalent to a sequential interleaving of these operations. The
// harness owns that interleaving: logical tasks follow the caller protocol of baseDataInterceptor /
// messageProcessor / netMessenger
//
//	if !CanProcess() { return busy }; StartProcessing(); work; EndProcessing()
//
// and a drawn schedule (sequence of task ids) advances one task by one protocol step at a time.
// The oracle is the harness' own count of tasks between StartProcessing and EndProcessing.

const verifC43KnownKey = "C43:overlapping-admission-window"

const (
	verifC43Idle    = 0 // next step: CanProcess
	verifC43Passed  = 1 // CanProcess returned true, next step: StartProcessing
	verifC43Running = 2 // between StartProcessing and EndProcessing
	verifC43Done    = 3
)

type verifC43Task struct {
	state      int
	roundsLeft int
	// dirty: another task executed StartProcessing between this task's CanProcess and its own
	// StartProcessing (the check-then-act window was overlapped by another admission)
	dirty bool
}

type verifC43Result struct {
	trace       []string
	admitted    int
	refused     int
	reachedMax  bool
	overshootAt int // step index or -1
	overlapped  bool
	running     int
	// overshoots explained by overlapped admission windows (known finding), counted; the schedule continues
	knownEvents  int
	firstKnownAt int
}

// verifC43Exec runs the schedule. atomicAdmission: a task's CanProcess and StartProcessing are adjacent.
func verifC43Exec(max int32, rounds []int, schedule []int, atomicAdmission bool) (*verifC43Result, error) {
	th, err := throttler.NewNumGoRoutinesThrottler(max)
	if err != nil {
		return nil, err
	}
	tasks := make([]*verifC43Task, len(rounds))
	for i, r := range rounds {
		tasks[i] = &verifC43Task{roundsLeft: r}
	}
	res := &verifC43Result{overshootAt: -1, firstKnownAt: -1}
	start := func(id int) {
		tk := tasks[id]
		th.StartProcessing()
		tk.state = verifC43Running
		res.running++
		res.admitted++
		res.trace = append(res.trace, fmt.Sprintf("T%d.Start", id))
		for j, o := range tasks {
			if j != id && o.state == verifC43Passed {
				o.dirty = true
			}
		}
	}
	for si, id := range schedule {
		tk := tasks[id]
		switch tk.state {
		case verifC43Idle:
			ok := th.CanProcess()
			res.trace = append(res.trace, fmt.Sprintf("T%d.Can=%v", id, ok))
			if !ok {
				res.refused++
				tk.roundsLeft--
				if tk.roundsLeft <= 0 {
					tk.state = verifC43Done
				}
				break
			}
			tk.state = verifC43Passed
			tk.dirty = false
			if atomicAdmission {
				start(id)
			}
		case verifC43Passed:
			start(id)
		case verifC43Running:
			th.EndProcessing()
			res.running--
			res.trace = append(res.trace, fmt.Sprintf("T%d.End", id))
			tk.roundsLeft--
			tk.state = verifC43Idle
			if tk.roundsLeft <= 0 {
				tk.state = verifC43Done
			}
		case verifC43Done:
			continue
		}
		if res.running == int(max) {
			res.reachedMax = true
		}
		if res.running > int(max) {
			// Overshoot. With a correct throttler (counter == number of running tasks) every interleaving keeps
			//   running <= max + dirtyRunning
			// where dirtyRunning = running tasks whose check-then-start window contained another task's
			// StartProcessing (induction over clean start / dirty start / end). An overshoot within that bound
			// is the known finding (counted, the schedule goes on); beyond it the throttler itself is wrong.
			dirtyRunning := 0
			for _, o := range tasks {
				if o.state == verifC43Running && o.dirty {
					dirtyRunning++
				}
			}
			if res.running > int(max)+dirtyRunning {
				res.overshootAt = si
				res.overlapped = false
				return res, nil
			}
			res.knownEvents++
			if res.firstKnownAt < 0 {
				res.firstKnownAt = si
			}
		}
	}
	return res, nil
}

func verifC43Gen(rt *rapid.T) (max int32, rounds []int, schedule []int) {
	max = int32(rapid.IntRange(1, 4).Draw(rt, "max"))
	n := rapid.IntRange(2, 6).Draw(rt, "tasks")
	rounds = make([]int, n)
	for i := range rounds {
		rounds[i] = rapid.IntRange(1, 3).Draw(rt, "rounds")
	}
	schedule = rapid.SliceOfN(rapid.IntRange(0, n-1), 1, 60).Draw(rt, "schedule")
	return
}

func verifC43Classify(c *kit.Case, tag string, max int32, rounds []int, schedule []int, res *verifC43Result) {
	if res.admitted > 0 {
		c.Class("some-admitted")
	}
	if res.refused > 0 {
		c.Class("some-refused")
	}
	if res.admitted >= 2 && res.reachedMax {
		c.NonTrivial(fmt.Sprint(tag, max, rounds, schedule))
		c.Sample("%s max=%d rounds=%v: %s", tag, max, rounds, strings.Join(res.trace, " "))
	}
}

func TestVerifC43_AtomicAdmission(t *testing.T) {
	kit.Run(t, "C43", kit.Budget{Quick: 20000, Thorough: 200000},
		"max 1..4, 2-6 logical tasks each running the caller protocol 1-3 times, drawn schedule of <= 60 task steps, admission (CanProcess+StartProcessing) of a task is one schedule step; oracle: tasks between Start and End <= max after every step; non-trivial = >= 2 admissions and running == max at some point; distinct by (max, rounds, schedule)",
		func(rt *rapid.T, c *kit.Case) {
			max, rounds, schedule := verifC43Gen(rt)
			var res *verifC43Result
			var err error
			c.NoPanic("C43:atomic:panic", func() { res, err = verifC43Exec(max, rounds, schedule, true) })
			if err != nil {
				rt.Fatalf("fixture: %v", err)
			}
			verifC43Classify(c, "atomic", max, rounds, schedule, res)
			if res.overshootAt >= 0 {
				c.Violation("C43:atomic:overshoot", "max=%d: %d tasks running after step %d; trace: %s", max, res.running, res.overshootAt, strings.Join(res.trace, " "))
			}
		})
}

func TestVerifC43_FreeInterleaving(t *testing.T) {
	kit.Run(t, "C43", kit.Budget{Quick: 20000, Thorough: 200000},
		"same generator, CanProcess and StartProcessing of a task are separate schedule steps (any other task may run in between); an overshoot in which a running task's check-then-start window contained another task's StartProcessing is the known finding "+verifC43KnownKey+", any other overshoot is a violation",
		func(rt *rapid.T, c *kit.Case) {
			max, rounds, schedule := verifC43Gen(rt)
			var res *verifC43Result
			var err error
			c.NoPanic("C43:free:panic", func() { res, err = verifC43Exec(max, rounds, schedule, false) })
			if err != nil {
				rt.Fatalf("fixture: %v", err)
			}
			verifC43Classify(c, "free", max, rounds, schedule, res)
			if res.overshootAt >= 0 {
				// more tasks running than max + (running tasks admitted through an overlapped window): not explained
				// by the check-then-act window, the throttler's counter is wrong
				c.Violation("C43:free:overshoot", "max=%d: %d tasks running after step %d, more than max plus the running tasks with an overlapped admission window; trace: %s", max, res.running, res.overshootAt, strings.Join(res.trace, " "))
			}
			if res.knownEvents > 0 {
				if !kit.IsKnown(verifC43KnownKey) {
					c.Violation(verifC43KnownKey, "max=%d: overshoot through overlapping admission windows at step %d; trace: %s", max, res.firstKnownAt, strings.Join(res.trace, " "))
				}
				c.Excluded(verifC43KnownKey)
				c.Class("known-overshoot-then-continued")
			}
		})
}

// Regression: the minimal schedule of the known finding, and sequential sanity of the bound.
func TestVerifC43_Regress(t *testing.T) {
	kit.Silence()
	// atomic admission, max=1, three tasks one after the other and nested attempts
	res, err := verifC43Exec(1, []int{2, 2, 2}, []int{0, 1, 2, 0, 1, 1, 2, 2, 0, 0}, true)
	if err != nil {
		t.Fatalf("fixture: %v", err)
	}
	if res.overshootAt >= 0 {
		kit.FailPlain(t, "C43", "C43:atomic:overshoot", "max=1 trace %s", strings.Join(res.trace, " "))
	}
	// minimal schedule of suspicion 18: T0.Can T1.Can T0.Start T1.Start
	res, err = verifC43Exec(1, []int{1, 1}, []int{0, 1, 0, 1}, false)
	if err != nil {
		t.Fatalf("fixture: %v", err)
	}
	if res.overshootAt >= 0 {
		kit.FailPlain(t, "C43", "C43:free:overshoot", "max=1 trace %s", strings.Join(res.trace, " "))
	}
	if res.knownEvents > 0 {
		kit.FailPlain(t, "C43", verifC43KnownKey, "max=1: 2 tasks running; trace: %s", strings.Join(res.trace, " "))
	}
	// after the overlapped pair has ended, admissions are bounded again (the counter must have followed both ends)
	res, err = verifC43Exec(1, []int{1, 1, 2, 2}, []int{0, 1, 0, 1, 0, 1, 2, 2, 3, 3, 2, 3, 3, 2, 2, 3, 3}, false)
	if err != nil {
		t.Fatalf("fixture: %v", err)
	}
	if res.overshootAt >= 0 {
		kit.FailPlain(t, "C43", "C43:free:overshoot", "max=1 trace %s", strings.Join(res.trace, " "))
	}
}

// Real goroutines following the caller protocol: its only purpose is to show that the schedule of the
// known finding is realisable by the Go scheduler (thorough tier only; either outcome is accepted, an
// overshoot is counted under the known-finding key).
func TestVerifC43_Goroutines(t *testing.T) {
	if !kit.Thorough() {
		t.Skip("thorough only")
	}
	p := kit.NewPlain(t, "C43", "real goroutines (8 workers x 20000 protocol rounds, max=2) measuring the number of workers between StartProcessing and EndProcessing")
	defer p.Done()
	const max = 2
	th, err := throttler.NewNumGoRoutinesThrottler(max)
	if err != nil {
		t.Fatalf("fixture: %v", err)
	}
	var running, worst int32
	var wg sync.WaitGroup
	barrier := make(chan struct{})
	for w := 0; w < 8; w++ {
		wg.Add(1)
		go func() {
			defer wg.Done()
			<-barrier
			for i := 0; i < 20000; i++ {
				if !th.CanProcess() {
					continue
				}
				th.StartProcessing()
				r := atomic.AddInt32(&running, 1)
				for {
					old := atomic.LoadInt32(&worst)
					if r <= old || atomic.CompareAndSwapInt32(&worst, old, r) {
						break
					}
				}
				atomic.AddInt32(&running, -1)
				th.EndProcessing()
			}
		}()
	}
	close(barrier)
	wg.Wait()
	p.Eval(1)
	p.Class(fmt.Sprintf("worst-running-%d-of-max-%d", atomic.LoadInt32(&worst), max), 1)
	if atomic.LoadInt32(&worst) > max {
		p.NonTrivial("goroutines-overshoot")
		p.Violation(verifC43KnownKey, "real goroutines: %d workers were between StartProcessing and EndProcessing with max=%d", worst, max)
	}
}
