package core_test

import (
	"fmt"
	"math"
	"math/big"
	"strconv"
	"strings"
	"testing"

	"github.com/ElrondNetwork/elrond-go/core"
	kit "github.com/ElrondNetwork/elrond-go/verifkit"
	"pgregory.net/rapid"
)

// C36: Percentage splits of amounts are exact and bounded (core.GetIntTrimmedPercentageOfValue).
//
// Reading of "amount times p rounded down" (see notes/reports/C36.md): the function is documented as "the exact
// percentage of value" and every caller passes a float64 that stands for a decimal fraction (TOML configuration
// values such as 0.1, or serviceFee/10000 in the delegation contract). The oracle therefore is
//   (a) for percentages that ARE such decimals (<= 15 significant digits, which float64 round-trips): the result
//       must equal floor(a*m/10^n) with the decimal m/10^n the harness generated itself (no float formatting in
//       the oracle);
//   (b) for every float64: the result must lie between floor(a*lo) and floor(a*hi) where [lo,hi] is the rounding
//       interval of the float64 (every real number a float64 can stand for) - this holds under any reading of "p";
//   (c) for every float64: equality with floor(a*q), q = shortest decimal that round-trips to p (the documented
//       behaviour; own big.Rat arithmetic);
//   plus the unconditional 0 <= r <= a, monotonicity in a and in p, p=0 => 0, p=1 => a, and the argument is not
//   modified.

var verifC36E18 = new(big.Int).Exp(big.NewInt(10), big.NewInt(18), nil)

func verifC36Pow(base int64, k int) *big.Int {
	return new(big.Int).Exp(big.NewInt(base), big.NewInt(int64(k)), nil)
}

// verifC36GenAmount draws a non-negative amount of bit length 0..300, boundary-biased.
func verifC36GenAmount(rt *rapid.T, label string) *big.Int {
	switch rapid.IntRange(0, 9).Draw(rt, label+"Kind") {
	case 0:
		return big.NewInt(int64(rapid.IntRange(0, 3).Draw(rt, label+"Small")))
	case 1, 2:
		k := rapid.IntRange(0, 90).Draw(rt, label+"Pow10")
		d := int64(rapid.IntRange(-1, 1).Draw(rt, label+"Delta"))
		v := verifC36Pow(10, k)
		v.Add(v, big.NewInt(d))
		if v.Sign() < 0 {
			v.SetInt64(0)
		}
		return v
	case 3:
		k := rapid.IntRange(0, 299).Draw(rt, label+"Pow2")
		d := int64(rapid.IntRange(-1, 1).Draw(rt, label+"Delta"))
		v := verifC36Pow(2, k)
		v.Add(v, big.NewInt(d))
		if v.BitLen() > 300 {
			v.Sub(v, big.NewInt(2))
		}
		return v
	case 4:
		// k * 10^e: typical token amounts
		k := int64(rapid.IntRange(1, 99999).Draw(rt, label+"Mant"))
		e := rapid.IntRange(0, 60).Draw(rt, label+"Exp10")
		v := verifC36Pow(10, e)
		return v.Mul(v, big.NewInt(k))
	default:
		bits := rapid.IntRange(0, 300).Draw(rt, label+"Bits")
		nb := (bits + 7) / 8
		buf := rapid.SliceOfN(rapid.Byte(), nb, nb).Draw(rt, label+"Bytes")
		v := new(big.Int).SetBytes(buf)
		if bits%8 != 0 && nb > 0 {
			v.Rsh(v, uint(8-bits%8))
		}
		return v
	}
}

type verifC36Pct struct {
	p       float64
	decimal bool     // p was produced from the decimal num/10^digits with <= 15 significant digits
	num     *big.Int // numerator of the decimal
	digits  int      // number of fractional digits of the decimal
	kind    string
}

// verifC36GenPct draws a percentage in [0,1].
func verifC36GenPct(rt *rapid.T) verifC36Pct {
	switch rapid.IntRange(0, 11).Draw(rt, "pKind") {
	case 0:
		tenth, seven := 0.1, 0.7 // variables: float64 arithmetic at run time, not exact constant arithmetic
		consts := []float64{0, 1, 1.0 / 3, 2.0 / 3, math.SmallestNonzeroFloat64, math.Nextafter(1, 0), math.Nextafter(0.5, 1),
			math.Nextafter(0.5, 0), tenth + 0.2, 1 - 9*tenth, 0x1p-1022, math.Nextafter(0x1p-1022, 0), seven * tenth, 1e-7, tenth * 3}
		return verifC36Pct{p: consts[rapid.IntRange(0, len(consts)-1).Draw(rt, "const")], kind: "const"}
	case 1, 2:
		// delegation: serviceFee/10000 computed by float division exactly as delegation.computeAndUpdateRewards does
		k := rapid.IntRange(0, 10000).Draw(rt, "fee")
		return verifC36Pct{p: float64(uint64(k)) / float64(uint64(10000)), decimal: true, num: big.NewInt(int64(k)), digits: 4, kind: "fee/10000"}
	case 3, 4, 5, 6:
		// a decimal as an operator writes it in a TOML file: n fractional digits, at most 15 significant ones
		n := rapid.IntRange(1, 15).Draw(rt, "digits")
		lead := 0
		if rapid.IntRange(0, 4).Draw(rt, "leadKind") == 0 {
			lead = rapid.IntRange(1, 15).Draw(rt, "leadingZeros")
		}
		max := verifC36Pow(10, n).Int64()
		var m int64
		switch rapid.IntRange(0, 5).Draw(rt, "numKind") {
		case 0:
			m = max // 1.000
			if lead > 0 {
				m = max - 1
			}
		case 1:
			m = max - 1 // 0.999..
		case 2:
			m = 1
		default:
			m = rapid.Int64Range(0, max).Draw(rt, "num")
			if lead > 0 && m == max {
				m = max - 1
			}
		}
		s := fmt.Sprintf("%0*d", n, m)
		var str string
		if m == max && lead == 0 {
			str = "1." + strings.Repeat("0", n)
		} else {
			str = "0." + strings.Repeat("0", lead) + s
		}
		p, err := strconv.ParseFloat(str, 64)
		if err != nil {
			rt.Fatalf("fixture: ParseFloat(%q): %v", str, err)
		}
		return verifC36Pct{p: p, decimal: true, num: big.NewInt(m), digits: n + lead, kind: "decimal"}
	case 7:
		// quotient of small integers (not a short decimal)
		d := rapid.IntRange(1, 1000).Draw(rt, "den")
		nn := rapid.IntRange(0, d).Draw(rt, "numer")
		return verifC36Pct{p: float64(nn) / float64(d), kind: "ratio"}
	case 8:
		return verifC36Pct{p: rapid.Float64Range(0, 1).Draw(rt, "pFloat"), kind: "rapid-float"}
	default:
		// uniformly random mantissa and exponent
		mant := rapid.Uint64Range(0, 1<<52-1).Draw(rt, "mantissa")
		var exp uint64
		if rapid.IntRange(0, 3).Draw(rt, "expKind") == 0 {
			exp = rapid.Uint64Range(0, 1022).Draw(rt, "exponent")
		} else {
			exp = rapid.Uint64Range(1022-70, 1022).Draw(rt, "exponentNear1")
		}
		return verifC36Pct{p: math.Float64frombits(exp<<52 | mant), kind: "bits"}
	}
}

func verifC36Floor(a *big.Int, q *big.Rat) *big.Int {
	// floor(a*q) for a >= 0, q >= 0 ; for q < 0 the (negative) result is only used as a lower bound
	n := new(big.Int).Mul(a, q.Num())
	d := q.Denom()
	quo, rem := new(big.Int).QuoRem(n, d, new(big.Int))
	if rem.Sign() < 0 {
		quo.Sub(quo, big.NewInt(1))
	}
	return quo
}

// verifC36Interval returns the rounding interval of p: the midpoints towards the neighbouring float64 values.
func verifC36Interval(p float64) (lo, hi *big.Rat) {
	exact := new(big.Rat).SetFloat64(p)
	prev := new(big.Rat).SetFloat64(math.Nextafter(p, math.Inf(-1)))
	next := new(big.Rat).SetFloat64(math.Nextafter(p, math.Inf(1)))
	half := big.NewRat(1, 2)
	lo = new(big.Rat).Add(exact, prev)
	lo.Mul(lo, half)
	hi = new(big.Rat).Add(exact, next)
	hi.Mul(hi, half)
	return lo, hi
}

func verifC36SigDigits(p float64) int {
	s := strconv.FormatFloat(p, 'e', -1, 64)
	s = s[:strings.IndexByte(s, 'e')]
	return len(strings.ReplaceAll(s, ".", ""))
}

func verifC36Call(c *kit.Case, a *big.Int, p float64) *big.Int {
	var r *big.Int
	c.NoPanic("C36:panic", func() { r = core.GetIntTrimmedPercentageOfValue(a, p) })
	if r == nil {
		c.Violation("C36:nil-result", "nil result for a=%v p=%v", a, p)
	}
	return r
}

func verifC36CheckOne(c *kit.Case, a *big.Int, pc verifC36Pct) *big.Int {
	p := pc.p
	before := new(big.Int).Set(a)
	r := verifC36Call(c, a, p)
	if a.Cmp(before) != 0 {
		c.Violation("C36:argument-modified", "the amount argument changed from %v to %v (p=%v)", before, a, p)
	}
	if r == a {
		c.Violation("C36:argument-aliased", "the result is the argument itself (a=%v p=%v)", a, p)
	}
	if r.Sign() < 0 || r.Cmp(a) > 0 {
		c.Violation("C36:out-of-bounds", "a=%v p=%v (%s): result %v is not within [0, a]", a, strconv.FormatFloat(p, 'g', -1, 64), pc.kind, r)
	}
	if p == 0 && r.Sign() != 0 {
		c.Violation("C36:zero-percent", "a=%v p=0: result %v", a, r)
	}
	if p == 1 && r.Cmp(a) != 0 {
		c.Violation("C36:hundred-percent", "a=%v p=1: result %v", a, r)
	}
	lo, hi := verifC36Interval(p)
	if r.Cmp(verifC36Floor(a, lo)) < 0 || r.Cmp(verifC36Floor(a, hi)) > 0 {
		c.Violation("C36:outside-rounding-interval", "a=%v p=%s (%s): result %v is outside [floor(a*lo), floor(a*hi)] = [%v, %v] for the rounding interval of p",
			a, strconv.FormatFloat(p, 'g', -1, 64), pc.kind, r, verifC36Floor(a, lo), verifC36Floor(a, hi))
	}
	if pc.decimal {
		q := new(big.Rat).SetFrac(pc.num, verifC36Pow(10, pc.digits))
		want := verifC36Floor(a, q)
		if r.Cmp(want) != 0 {
			c.Violation("C36:decimal-not-exact", "a=%v p=%v/10^%d (float64 %s, %s): result %v, want floor(a*p) = %v",
				a, pc.num, pc.digits, strconv.FormatFloat(p, 'g', -1, 64), pc.kind, r, want)
		}
	}
	q, ok := new(big.Rat).SetString(strconv.FormatFloat(p, 'f', -1, 64))
	if !ok {
		c.Violation("C36:fixture", "cannot parse the decimal form of %v", p)
	}
	if want := verifC36Floor(a, q); r.Cmp(want) != 0 {
		c.Violation("C36:shortest-decimal-not-exact", "a=%v p=%s (%s): result %v, want floor(a * shortest decimal of p) = %v",
			a, strconv.FormatFloat(p, 'g', -1, 64), pc.kind, r, want)
	}
	return r
}

func TestVerifC36_Percentage(t *testing.T) {
	kit.Run(t, "C36", kit.Budget{Quick: 40000, Thorough: 400000},
		"amounts of bit length 0..300 (0, 1, 10^k(+-1), 2^k(+-1), k*10^e, random bits) x percentages in [0,1] (decimals with <=15 significant digits as written in TOML, serviceFee/10000 by float division, constants such as 1/3, smallest subnormal, nextafter(1,0), ratios, random mantissa/exponent); oracle: own rational arithmetic (floor(a*m/10^n) for decimals, rounding-interval bracket and shortest-decimal value for all), bounds, monotonicity in a and p, delegation split model; non-trivial = a >= 10^18 and p with >= 3 significant decimal digits; distinct by (a, p)",
		func(rt *rapid.T, c *kit.Case) {
			a := verifC36GenAmount(rt, "a")
			pc := verifC36GenPct(rt)
			c.Class("p:" + pc.kind)
			r := verifC36CheckOne(c, a, pc)

			sig := verifC36SigDigits(pc.p)
			if a.Cmp(verifC36E18) >= 0 && sig >= 3 {
				c.NonTrivial(a.String() + "|" + strconv.FormatFloat(pc.p, 'g', -1, 64))
				c.Sample("a=%v p=%s (%s) -> %v", a, strconv.FormatFloat(pc.p, 'g', -1, 64), pc.kind, r)
			}
			if r.Sign() != 0 && r.Cmp(a) != 0 {
				c.Class("0<r<a")
			}

			// monotone in the amount
			var a2 *big.Int
			if rapid.Bool().Draw(rt, "smallStep") {
				a2 = new(big.Int).Add(a, big.NewInt(int64(rapid.IntRange(1, 20).Draw(rt, "step"))))
			} else {
				a2 = new(big.Int).Add(a, verifC36GenAmount(rt, "inc"))
			}
			r2 := verifC36Call(c, a2, pc.p)
			if r2.Cmp(r) < 0 {
				c.Violation("C36:not-monotone-in-amount", "p=%s: f(%v)=%v but f(%v)=%v", strconv.FormatFloat(pc.p, 'g', -1, 64), a, r, a2, r2)
			}
			// monotone in the percentage
			if pc.p < 1 {
				var p3 float64
				if rapid.Bool().Draw(rt, "nextFloat") {
					p3 = math.Nextafter(pc.p, 2)
				} else {
					p3 = pc.p + (1-pc.p)*rapid.Float64Range(0, 1).Draw(rt, "pInc")
				}
				if p3 >= pc.p && p3 <= 1 {
					r3 := verifC36Call(c, a, p3)
					if r3.Cmp(r) < 0 {
						c.Violation("C36:not-monotone-in-percentage", "a=%v: f(p=%s)=%v but f(p=%s)=%v", a,
							strconv.FormatFloat(pc.p, 'g', -1, 64), r, strconv.FormatFloat(p3, 'g', -1, 64), r3)
					}
				}
			}
		})
}

// The delegation split as delegation.computeAndUpdateRewards performs it (stakingV2): owner part =
// f(total, fee/10000); the rest is shared pro rata with integer division. Everything handed out must not exceed
// the total, and what is left over is less than the number of delegators (one unit of rounding per delegator).
func TestVerifC36_DelegationSplit(t *testing.T) {
	kit.Run(t, "C36", kit.Budget{Quick: 15000, Thorough: 150000},
		"rewards to distribute (same amount generator), service fee 0..10000 (boundary-biased), 1..8 delegators with stakes 1..10^24; owner = GetIntTrimmedPercentageOfValue(total, float64(fee)/float64(10000)); oracle: owner == floor(total*fee/10000), owner + delegators' part == total, sum of floor shares <= delegators' part with difference < number of delegators; non-trivial = total >= 10^18, 0 < fee < 10000, >= 2 delegators",
		func(rt *rapid.T, c *kit.Case) {
			total := verifC36GenAmount(rt, "total")
			var fee int
			switch rapid.IntRange(0, 4).Draw(rt, "feeKind") {
			case 0:
				fee = []int{0, 1, 9999, 10000, 5000, 1234, 3333}[rapid.IntRange(0, 6).Draw(rt, "feeConst")]
			default:
				fee = rapid.IntRange(0, 10000).Draw(rt, "fee")
			}
			percentage := float64(uint64(fee)) / float64(uint64(10000))
			owner := verifC36Call(c, total, percentage)
			want := new(big.Int).Mul(total, big.NewInt(int64(fee)))
			want.Quo(want, big.NewInt(10000))
			if owner.Cmp(want) != 0 {
				c.Violation("C36:delegation-owner-part", "total=%v fee=%d/10000: owner part %v, want %v", total, fee, owner, want)
			}
			rest := new(big.Int).Sub(total, owner)
			if rest.Sign() < 0 || owner.Sign() < 0 {
				c.Violation("C36:delegation-negative-part", "total=%v fee=%d/10000: owner part %v, delegators' part %v", total, fee, owner, rest)
			}
			n := rapid.IntRange(1, 8).Draw(rt, "delegators")
			stakes := make([]*big.Int, n)
			totalActive := new(big.Int)
			for i := range stakes {
				stakes[i] = new(big.Int).Add(verifC36GenAmount(rt, "stake"), big.NewInt(1))
				if stakes[i].BitLen() > 80 {
					stakes[i].Rsh(stakes[i], uint(stakes[i].BitLen()-80))
				}
				totalActive.Add(totalActive, stakes[i])
			}
			handedOut := new(big.Int).Set(owner)
			for _, s := range stakes {
				share := new(big.Int).Mul(rest, s)
				share.Quo(share, totalActive)
				handedOut.Add(handedOut, share)
			}
			left := new(big.Int).Sub(total, handedOut)
			if left.Sign() < 0 {
				c.Violation("C36:delegation-over-distributed", "total=%v fee=%d stakes=%v: handed out %v", total, fee, stakes, handedOut)
			}
			if left.Cmp(big.NewInt(int64(n))) >= 0 {
				c.Violation("C36:delegation-under-distributed", "total=%v fee=%d stakes=%v: %v left, more than one unit per delegator", total, fee, stakes, left)
			}
			if total.Cmp(verifC36E18) >= 0 && fee > 0 && fee < 10000 && n >= 2 {
				c.NonTrivial(fmt.Sprint(total, fee, stakes))
				c.Sample("total=%v fee=%d stakes=%v owner=%v left=%v", total, fee, stakes, owner, left)
			}
		})
}

// Exhaustive over the delegation contract's fee domain for a few amounts: float64(fee)/10000 must give exactly
// floor(a*fee/10000).
func TestVerifC36_AllServiceFees(t *testing.T) {
	p := kit.NewPlain(t, "C36", "every service fee 0..10000 x amounts {0, 1, 9999, 10^4+1, 10^18, 10^18+7, 10^27-1, 2^200+1, 10^80+12345}: result == floor(a*fee/10000)")
	defer p.Done()
	amounts := []*big.Int{big.NewInt(0), big.NewInt(1), big.NewInt(9999), big.NewInt(10001), verifC36Pow(10, 18),
		new(big.Int).Add(verifC36Pow(10, 18), big.NewInt(7)), new(big.Int).Sub(verifC36Pow(10, 27), big.NewInt(1)),
		new(big.Int).Add(verifC36Pow(2, 200), big.NewInt(1)), new(big.Int).Add(verifC36Pow(10, 80), big.NewInt(12345))}
	for fee := 0; fee <= 10000; fee++ {
		pct := float64(uint64(fee)) / float64(uint64(10000))
		for _, a := range amounts {
			got := core.GetIntTrimmedPercentageOfValue(a, pct)
			want := new(big.Int).Mul(a, big.NewInt(int64(fee)))
			want.Quo(want, big.NewInt(10000))
			p.Eval(1)
			if got.Cmp(want) != 0 {
				p.Violation("C36:delegation-owner-part", "a=%v fee=%d/10000: got %v want %v", a, fee, got, want)
			}
			if a.Cmp(verifC36E18) >= 0 && fee >= 100 {
				p.NonTrivialN(uint64(fee)<<8 | uint64(a.BitLen()))
			}
		}
	}
	p.Exhaustive()
}

// Regression table: hand-computed values (they run in every tier).
func TestVerifC36_Regress(t *testing.T) {
	kit.Silence()
	big1e30 := verifC36Pow(10, 30)
	tenth := 0.1
	tests := []struct {
		a    *big.Int
		p    float64
		want string
	}{
		{big1e30, 0.1, "100000000000000000000000000000"},
		{big1e30, 0.3, "300000000000000000000000000000"},
		{big.NewInt(999), 0.999, "998"},
		{big.NewInt(1000), 0.0005, "0"},
		{big.NewInt(2000), 0.0005, "1"},
		{big.NewInt(10), 1, "10"},
		{big.NewInt(10), 0, "0"},
		{verifC36Pow(10, 20), tenth + 0.2, "30000000000000004000"},
		{verifC36Pow(10, 400), math.SmallestNonzeroFloat64, "5" + strings.Repeat("0", 76)},
	}
	for _, tc := range tests {
		got := core.GetIntTrimmedPercentageOfValue(tc.a, tc.p)
		if got.String() != tc.want {
			kit.FailPlain(t, "C36", "C36:regress", "a=%v p=%v: got %v want %v", tc.a, tc.p, got, tc.want)
		}
	}
}
