package partitioning_test

import (
	"bytes"
	"fmt"
	"testing"

	"github.com/ElrondNetwork/elrond-go/core/partitioning"
	"github.com/ElrondNetwork/elrond-go/data/batch"
	"github.com/ElrondNetwork/elrond-go/marshal"
	kit "github.com/ElrondNetwork/elrond-go/verifkit"
	"pgregory.net/rapid"
)

// C32: Data packing for network transfer is lossless.

func verifC32GenList(rt *rapid.T) (data [][]byte, limit int) {
	if kit.Thorough() && rapid.IntRange(0, 40).Draw(rt, "bigLimit") == 0 {
		limit = 1 << 18
	} else {
		limit = rapid.IntRange(1, 200).Draw(rt, "limit")
	}
	n := rapid.IntRange(0, 30).Draw(rt, "n")
	data = make([][]byte, 0, n)
	fill := rapid.Byte().Draw(rt, "fill")
	for i := 0; i < n; i++ {
		var l int
		switch rapid.IntRange(0, 9).Draw(rt, "lenKind") {
		case 0:
			l = 0
		case 1:
			l = 1
		case 2:
			l = limit/2 - 1
		case 3:
			l = limit / 2
		case 4, 5:
			l = limit + rapid.IntRange(-6, 3).Draw(rt, "delta")
		case 6:
			l = 3 * limit
		default:
			l = rapid.IntRange(0, 2*limit).Draw(rt, "len")
		}
		if l < 0 {
			l = 0
		}
		if l > 1<<19 {
			l = 1 << 19
		}
		e := make([]byte, l)
		for j := range e {
			e[j] = fill + byte(i) + byte(j)
		}
		data = append(data, e)
	}
	return data, limit
}

func verifC32Lens(data [][]byte) []int {
	r := make([]int, len(data))
	for i, e := range data {
		r[i] = len(e)
	}
	return r
}

func verifC32Classify(c *kit.Case, data [][]byte, limit int, elemSize func([]byte) int) {
	// non-trivial: >= 3 elements where two neighbours each fit on their own but not together
	if len(data) >= 3 {
		for i := 0; i+1 < len(data); i++ {
			a, b := elemSize(data[i]), elemSize(data[i+1])
			if a < limit && b < limit && a+b >= limit {
				c.NonTrivial(fmt.Sprint(limit, verifC32Lens(data)))
				c.Sample("limit=%d element lengths=%v", limit, verifC32Lens(data))
				return
			}
		}
	}
}

func verifC32CheckChunks(c *kit.Case, name string, chunks [][]byte, data [][]byte, limit int, m marshal.Marshalizer, bySum bool) {
	var got [][]byte
	for ci, ch := range chunks {
		b := &batch.Batch{}
		if err := m.Unmarshal(b, ch); err != nil {
			c.Violation("C32:"+name+":chunk-not-decodable", "chunk %d does not decode: %v (limit %d lens %v)", ci, err, limit, verifC32Lens(data))
		}
		if len(b.Data) == 0 {
			c.Violation("C32:"+name+":empty-chunk", "chunk %d of %d is empty (limit %d, element lengths %v)", ci, len(chunks), limit, verifC32Lens(data))
		}
		if len(b.Data) > 1 {
			size := len(ch)
			if bySum {
				size = 0
				for _, e := range b.Data {
					size += len(e)
				}
			}
			if size >= limit {
				c.Violation("C32:"+name+":chunk-over-limit", "chunk %d holds %d elements and measures %d >= limit %d (lens %v)", ci, len(b.Data), size, limit, verifC32Lens(data))
			}
		}
		got = append(got, b.Data...)
	}
	if len(got) != len(data) {
		c.Violation("C32:"+name+":element-count", "unpacked %d elements, input had %d (limit %d, element lengths %v)", len(got), len(data), limit, verifC32Lens(data))
	}
	for i := range data {
		if !bytes.Equal(got[i], data[i]) {
			c.Violation("C32:"+name+":element-bytes", "element %d differs after unpacking (limit %d, lens %v)", i, limit, verifC32Lens(data))
		}
	}
}

func TestVerifC32_SizeDataPacker(t *testing.T) {
	m := &marshal.GogoProtoMarshalizer{}
	sdp, _ := partitioning.NewSizeDataPacker(m)
	kit.Run(t, "C32", kit.Budget{Quick: 12000, Thorough: 150000},
		"lists of 0-30 byte strings with lengths around limit/2, limit, 3*limit, limit 1..200 (thorough also 2^18); SizeDataPacker chunks are unmarshalled and concatenated and compared with the input; non-trivial = >=3 elements with two neighbours that each fit but not together; distinct by (limit, length vector)",
		func(rt *rapid.T, c *kit.Case) {
			data, limit := verifC32GenList(rt)
			// the packer measures marshalled size: 2 bytes of framing per small element is a good proxy for classification
			verifC32Classify(c, data, limit, func(e []byte) int { return len(e) + 2 })
			var chunks [][]byte
			var err error
			c.NoPanic("C32:size:panic", func() { chunks, err = sdp.PackDataInChunks(data, limit) })
			if err != nil {
				c.Violation("C32:size:error", "unexpected error %v", err)
			}
			verifC32CheckChunks(c, "size", chunks, data, limit, m, false)
		})
}

func TestVerifC32_SimpleDataPacker(t *testing.T) {
	m := &marshal.GogoProtoMarshalizer{}
	sdp, _ := partitioning.NewSimpleDataPacker(m)
	kit.Run(t, "C32", kit.Budget{Quick: 12000, Thorough: 150000},
		"same generator; SimpleDataPacker measures the sum of element lengths",
		func(rt *rapid.T, c *kit.Case) {
			data, limit := verifC32GenList(rt)
			verifC32Classify(c, data, limit, func(e []byte) int { return len(e) })
			var chunks [][]byte
			var err error
			c.NoPanic("C32:simple:panic", func() { chunks, err = sdp.PackDataInChunks(data, limit) })
			if err != nil {
				c.Violation("C32:simple:error", "unexpected error %v", err)
			}
			verifC32CheckChunks(c, "simple", chunks, data, limit, m, true)
		})
}

func TestVerifC32_DataSplit(t *testing.T) {
	ds := &partitioning.DataSplit{}
	kit.Run(t, "C32", kit.Budget{Quick: 8000, Thorough: 100000},
		"same element generator, limit = number of elements per chunk 1..12; every chunk but the last has exactly limit elements; non-trivial = more than one chunk and a partial last chunk",
		func(rt *rapid.T, c *kit.Case) {
			data, _ := verifC32GenList(rt)
			limit := rapid.IntRange(1, 12).Draw(rt, "numLimit")
			var chunks [][][]byte
			var err error
			c.NoPanic("C32:split:panic", func() { chunks, err = ds.SplitDataInChunks(data, limit) })
			if err != nil {
				c.Violation("C32:split:error", "unexpected error %v", err)
			}
			var got [][]byte
			for i, ch := range chunks {
				if len(ch) == 0 || len(ch) > limit || (i < len(chunks)-1 && len(ch) != limit) {
					c.Violation("C32:split:chunk-size", "chunk %d of %d has %d elements, limit %d, input %d", i, len(chunks), len(ch), limit, len(data))
				}
				got = append(got, ch...)
			}
			if len(got) != len(data) {
				c.Violation("C32:split:element-count", "got %d elements, want %d", len(got), len(data))
			}
			for i := range data {
				if !bytes.Equal(got[i], data[i]) {
					c.Violation("C32:split:element-bytes", "element %d differs", i)
				}
			}
			if len(chunks) > 1 && len(data)%limit != 0 {
				c.NonTrivial(fmt.Sprint("split", limit, verifC32Lens(data)))
			}
		})
}

// Concurrent callers on one shared packer (the resolvers share one data packer between the goroutines that serve
// requests): every caller must get chunks that unpack to its own input. No timing oracle: results are judged after
// all goroutines have joined.
func TestVerifC32_ConcurrentCallers(t *testing.T) {
	m := &marshal.GogoProtoMarshalizer{}
	kit.Run(t, "C32", kit.Budget{Quick: 400, Thorough: 4000},
		"one shared SimpleDataPacker and one shared SizeDataPacker, warmed up by a first call, then 2-8 goroutines behind a barrier each packing its own generated list 3-10 times; after the join every result must unpack to the caller's own input; non-trivial = >= 3 goroutines with >= 2 multi-element lists",
		func(rt *rapid.T, c *kit.Case) {
			simple, _ := partitioning.NewSimpleDataPacker(m)
			size, _ := partitioning.NewSizeDataPacker(m)
			warm, wl := verifC32GenList(rt)
			_, _ = simple.PackDataInChunks(warm, wl)
			_, _ = size.PackDataInChunks(warm, wl)
			n := rapid.IntRange(2, 8).Draw(rt, "goroutines")
			type job struct {
				data   [][]byte
				limit  int
				rounds int
				bad    string
			}
			jobs := make([]*job, n)
			multi := 0
			for i := range jobs {
				d, l := verifC32GenList(rt)
				if l > 4096 {
					l = 200
				}
				// make the lists distinguishable between goroutines
				for _, e := range d {
					if len(e) > 0 {
						e[0] = byte(i + 1)
					}
				}
				if len(d) >= 2 {
					multi++
				}
				jobs[i] = &job{data: d, limit: l, rounds: rapid.IntRange(3, 10).Draw(rt, "rounds")}
			}
			barrier := make(chan struct{})
			done := make(chan struct{}, n)
			for i := range jobs {
				go func(j *job) {
					defer func() {
						if r := recover(); r != nil {
							j.bad = fmt.Sprintf("panic: %v", r)
						}
						done <- struct{}{}
					}()
					<-barrier
					for r := 0; r < j.rounds && j.bad == ""; r++ {
						for pi, pk := range []func([][]byte, int) ([][]byte, error){simple.PackDataInChunks, size.PackDataInChunks} {
							chunks, err := pk(j.data, j.limit)
							if err != nil {
								j.bad = fmt.Sprintf("packer %d: unexpected error %v", pi, err)
								break
							}
							var got [][]byte
							for _, ch := range chunks {
								b := &batch.Batch{}
								if err := m.Unmarshal(b, ch); err != nil {
									j.bad = fmt.Sprintf("packer %d: chunk does not decode: %v", pi, err)
									break
								}
								got = append(got, b.Data...)
							}
							if j.bad != "" {
								break
							}
							if len(got) != len(j.data) {
								j.bad = fmt.Sprintf("packer %d round %d: unpacked %d elements, input had %d (lens %v)", pi, r, len(got), len(j.data), verifC32Lens(j.data))
								break
							}
							for k := range got {
								if !bytes.Equal(got[k], j.data[k]) {
									j.bad = fmt.Sprintf("packer %d round %d: element %d differs from the caller's input (lens %v)", pi, r, k, verifC32Lens(j.data))
									break
								}
							}
						}
					}
				}(jobs[i])
			}
			close(barrier)
			for range jobs {
				<-done
			}
			if n >= 3 && multi >= 2 {
				c.NonTrivial(fmt.Sprint("conc", n, multi, verifC32Lens(jobs[0].data), verifC32Lens(jobs[1].data)))
			}
			for i, j := range jobs {
				if j.bad != "" {
					c.Violation("C32:concurrent:result-not-callers-input", "goroutine %d of %d (limit %d): %s", i, n, j.limit, j.bad)
				}
			}
		})
}

// regression: the shrunk counterexample of the SizeDataPacker defect (three 10-byte elements, limit 20).
func TestVerifC32_Regress(t *testing.T) {
	kit.Silence()
	m := &marshal.GogoProtoMarshalizer{}
	sdp, _ := partitioning.NewSizeDataPacker(m)
	data := [][]byte{bytes.Repeat([]byte{1}, 10), bytes.Repeat([]byte{2}, 10), bytes.Repeat([]byte{3}, 10)}
	chunks, err := sdp.PackDataInChunks(data, 20)
	if err != nil {
		t.Fatalf("fixture: %v", err)
	}
	n := 0
	for _, ch := range chunks {
		b := &batch.Batch{}
		_ = m.Unmarshal(b, ch)
		if len(b.Data) == 0 {
			kit.FailPlain(t, "C32", "C32:size:empty-chunk", "empty chunk for three 10-byte elements, limit 20")
		}
		n += len(b.Data)
	}
	if n != 3 {
		kit.FailPlain(t, "C32", "C32:size:element-count", "unpacked %d of 3 elements (three 10-byte elements, limit 20)", n)
	}
}
