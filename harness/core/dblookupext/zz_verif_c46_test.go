package dblookupext

import (
	"bytes"
	"fmt"
	"runtime"
	"strings"
	"testing"

	"github.com/ElrondNetwork/elrond-go/core"
	"github.com/ElrondNetwork/elrond-go/data"
	"github.com/ElrondNetwork/elrond-go/data/block"
	"github.com/ElrondNetwork/elrond-go/hashing/blake2b"
	"github.com/ElrondNetwork/elrond-go/marshal"
	"github.com/ElrondNetwork/elrond-go/testscommon/genericMocks"
	kit "github.com/ElrondNetwork/elrond-go/verifkit"
	"pgregory.net/rapid"
)

// C46: Transaction lookup reports the canonical block.
//
// A history is a sequence of RecordBlock / OnNotarizedBlocks calls against a real historyRepository
// (production marshalizer and hasher; in-memory storers: the miniblock-metadata storer is epoch-aware
// (PutInEpoch/GetFromEpoch), the two index storers are static, as in storage/factory). The harness keeps
// an independent model (Go maps) of "latest record containing ..." and of the notifications seen.

type verifC46MB struct {
	mb   *block.MiniBlock
	hash []byte
}

type verifC46Record struct {
	seq        int // position in the history (clock value)
	headerHash []byte
	header     data.HeaderHandler
	body       *block.Body
	mbs        []*verifC46MB
	nonce      uint64
	round      uint64
	epoch      uint32
	parent     *verifC46Record // the block it was built on (nil: the first block of the history)
}

type verifC46Notif struct {
	at        int    // clock value of the OnNotarizedBlocks call that carried it
	side      string // "source", "destination" or "both"
	metaNonce uint64
	metaHash  []byte
}

type verifC46Model struct {
	self        uint32
	pool        []*verifC46MB
	records     []*verifC46Record            // distinct RecordBlock argument sets, in first-call order
	live        []*verifC46Record            // the current chain: records not dropped, ascending nonce
	latestByMB  map[string]*verifC46Record   // miniblock hash -> latest call's record
	firstAt     map[string]int               // miniblock hash -> clock of its first record
	lastAt      map[string]int               // miniblock hash -> clock of its latest record
	unasserted  map[string]bool              // (miniblock, side) seen without notarization after a re-record (not asserted)
	headersOfMB map[string]map[string]bool   // miniblock hash -> distinct header hashes it was recorded under
	earlierOfMB map[string][]*verifC46Record // all records of the miniblock in call order
	latestByTx  map[string]*verifC46MB       // tx hash -> miniblock of the latest record containing the tx
	recByTx     map[string]*verifC46Record
	notifs      map[string][]*verifC46Notif // miniblock hash -> notifications seen
	lastCallAt  int                         // clock of the latest completed OnNotarizedBlocks call
	clock       int
	epoch       uint32
	startNonce  uint64
	round       uint64
	metaNonce   uint64
	hdrCounter  int
	log         []string
}

func (m *verifC46Model) logf(format string, args ...interface{}) {
	m.log = append(m.log, fmt.Sprintf("%3d: ", m.clock)+fmt.Sprintf(format, args...))
}

func (m *verifC46Model) history() string { return strings.Join(m.log, "\n") }

func verifC46ShardName(s uint32) string {
	if s == core.MetachainShardId {
		return "meta"
	}
	return fmt.Sprint(s)
}

func (m *verifC46Model) mbName(mb *verifC46MB) string {
	for i, p := range m.pool {
		if p == mb {
			txs := make([]string, len(mb.mb.TxHashes))
			for k, t := range mb.mb.TxHashes {
				txs[k] = string(t[:4])
			}
			return fmt.Sprintf("mb%d[%s->%s %v]", i, verifC46ShardName(mb.mb.SenderShardID), verifC46ShardName(mb.mb.ReceiverShardID), txs)
		}
	}
	return "mb?"
}

var verifC46Shards = []uint32{0, 1, 2, core.MetachainShardId}

func verifC46TxHash(i int) []byte {
	return []byte(fmt.Sprintf("tx%02d............................", i))[:32]
}

func verifC46GenPool(rt *rapid.T, m *verifC46Model, hr *historyRepository) {
	n := rapid.IntRange(5, 10).Draw(rt, "poolSize")
	numTx := rapid.SampledFrom([]int{6, 12, 24}).Draw(rt, "numTx") // fewer tx hashes => the same tx in several miniblocks
	seen := map[string]bool{}
	for i := 0; i < n; i++ {
		other := rapid.SampledFrom(verifC46Shards).Draw(rt, "otherShard")
		mb := &block.MiniBlock{SenderShardID: m.self, ReceiverShardID: m.self}
		switch rapid.IntRange(0, 2).Draw(rt, "direction") {
		case 0:
			mb.ReceiverShardID = other // from me (to another shard, to meta, or intra when other == self)
		case 1:
			mb.SenderShardID = other // to me
		}
		mb.Type = rapid.SampledFrom([]block.Type{block.TxBlock, block.TxBlock, block.SmartContractResultBlock, block.InvalidBlock}).Draw(rt, "type")
		if mb.SenderShardID == core.MetachainShardId && mb.ReceiverShardID != core.MetachainShardId && rapid.Bool().Draw(rt, "rewards") {
			mb.Type = block.RewardsBlock
		}
		k := rapid.IntRange(1, 3).Draw(rt, "numTxs")
		used := map[int]bool{}
		for j := 0; j < k; j++ {
			t := rapid.IntRange(0, numTx-1).Draw(rt, "tx")
			if used[t] {
				continue
			}
			used[t] = true
			mb.TxHashes = append(mb.TxHashes, verifC46TxHash(t))
		}
		h, err := hr.computeMiniblockHash(mb)
		if err != nil {
			rt.Fatalf("fixture: %v", err)
		}
		if seen[string(h)] {
			continue
		}
		seen[string(h)] = true
		m.pool = append(m.pool, &verifC46MB{mb: mb, hash: h})
	}
}

func (m *verifC46Model) newHeader(nonce uint64, epoch uint32) (data.HeaderHandler, []byte) {
	m.hdrCounter++
	m.round++
	hash := []byte(fmt.Sprintf("hdr%03d_n%d_e%d......................", m.hdrCounter, nonce, epoch))[:32]
	if m.self == core.MetachainShardId {
		return &block.MetaBlock{Nonce: nonce, Round: m.round, Epoch: epoch}, hash
	}
	return &block.Header{Nonce: nonce, Round: m.round, Epoch: epoch, ShardID: m.self}, hash
}

// apply a RecordBlock call to the model
func (m *verifC46Model) applyRecord(r *verifC46Record) {
	for _, mb := range r.mbs {
		k := string(mb.hash)
		m.latestByMB[k] = r
		m.lastAt[k] = m.clock
		if _, ok := m.firstAt[k]; !ok {
			m.firstAt[k] = m.clock
		}
		if m.headersOfMB[k] == nil {
			m.headersOfMB[k] = map[string]bool{}
		}
		m.headersOfMB[k][string(r.headerHash)] = true
		m.earlierOfMB[k] = append(m.earlierOfMB[k], r)
		for _, tx := range mb.mb.TxHashes {
			m.latestByTx[string(tx)] = mb
			m.recByTx[string(tx)] = r
		}
	}
}

// the side(s) a notification informs about: a miniblock header listed under the block of shard
// `container` in a meta block. Intra-shard miniblocks and miniblocks towards the metachain are complete
// (executed at source and destination) as soon as the meta block notarizes the source block.
func verifC46Side(mb *block.MiniBlock, container uint32) string {
	switch {
	case mb.SenderShardID == mb.ReceiverShardID, mb.ReceiverShardID == core.MetachainShardId:
		return "both"
	case container == mb.SenderShardID:
		return "source"
	default:
		return "destination"
	}
}

// verifC46HookStorer lets the harness own the schedule: after every write it calls the hook, which may let
// a concurrent OnNotarizedBlocks run at exactly that point of a RecordBlock call.
type verifC46HookStorer struct {
	*genericMocks.StorerMock
	sched *verifC46Sched
}

func (s *verifC46HookStorer) Put(key, value []byte) error {
	s.sched.beforeWrite()
	err := s.StorerMock.Put(key, value)
	s.sched.afterWrite()
	return err
}

func (s *verifC46HookStorer) PutInEpoch(key, value []byte, epoch uint32) error {
	s.sched.beforeWrite()
	err := s.StorerMock.PutInEpoch(key, value, epoch)
	s.sched.afterWrite()
	return err
}

// verifC46Sched: during one RecordBlock call, after the fireAt-th storage write made by the recording goroutine,
// a notification is delivered on another goroutine (as in production, where OnNotarizedBlocks has its own
// goroutine). If the recording goroutine does not hold the notifications mutex at that point the notification
// runs to completion before the record continues; if it does (the write happens inside the critical section)
// the notification is started, necessarily blocks on the mutex, and is given its turn (joined) right before the
// recorder's next write outside the critical section, or after RecordBlock returned. No timing is involved.
type verifC46Sched struct {
	hr          *historyRepository
	recorderGID uint64 // goroutine id of the running RecordBlock call, 0 = no call in progress
	count       int
	fireAt      int
	notif       *verifC46Notification
	fired       bool
	firedInside bool // started while the recorder held the mutex
	done        chan struct{}
}

func verifC46GoroutineID() uint64 {
	var buf [64]byte
	n := runtime.Stack(buf[:], false)
	// "goroutine 123 [running]:..."
	var id uint64
	for _, ch := range buf[len("goroutine "):n] {
		if ch < '0' || ch > '9' {
			break
		}
		id = id*10 + uint64(ch-'0')
	}
	return id
}

func (s *verifC46Sched) recorderHoldsMutex() bool {
	if s.hr.consumePendingNotificationsMutex.TryLock() {
		s.hr.consumePendingNotificationsMutex.Unlock()
		return false
	}
	return true
}

// beforeWrite: a notification that was started inside the critical section gets its turn as soon as the recorder
// has left it, i.e. it completes before the recorder's next storage write (instead of racing with it)
func (s *verifC46Sched) beforeWrite() {
	if s == nil || s.recorderGID == 0 || s.done == nil || verifC46GoroutineID() != s.recorderGID {
		return
	}
	// The mutex can be held by the recorder itself (this write is inside the critical section: the notification
	// cannot finish, go on) or by the notification that is being consumed right now (it will finish: wait). The
	// two cases are told apart by a bounded wait; a wrong guess only changes which schedule is explored.
	for i := 0; i < 2000; i++ {
		select {
		case <-s.done:
			s.done = nil
			return
		default:
		}
		if !s.recorderHoldsMutex() {
			<-s.done
			s.done = nil
			return
		}
		runtime.Gosched()
	}
}

func (s *verifC46Sched) afterWrite() {
	if s == nil || s.recorderGID == 0 || verifC46GoroutineID() != s.recorderGID {
		return // a write of the notification goroutine, or no scheduled call in progress
	}
	s.count++
	if s.notif != nil && !s.fired && s.count == s.fireAt {
		s.fired = true
		done := make(chan struct{})
		n, hr := s.notif, s.hr
		inside := s.recorderHoldsMutex()
		go func() {
			hr.OnNotarizedBlocks(core.MetachainShardId, []data.HeaderHandler{n.meta}, [][]byte{n.hash})
			close(done)
		}()
		if inside {
			s.firedInside = true
			s.done = done
		} else {
			<-done
		}
	}
}

func verifC46NewRepo(rt interface{ Fatalf(string, ...interface{}) }, self uint32) *historyRepository {
	hr, _ := verifC46NewRepoWithSched(rt, self)
	return hr
}

func verifC46NewRepoWithSched(rt interface{ Fatalf(string, ...interface{}) }, self uint32) (*historyRepository, *verifC46Sched) {
	sched := &verifC46Sched{}
	args := HistoryRepositoryArguments{
		SelfShardID:                 self,
		MiniblocksMetadataStorer:    &verifC46HookStorer{StorerMock: genericMocks.NewStorerMock("MiniblocksMetadata", 0), sched: sched},
		MiniblockHashByTxHashStorer: &verifC46HookStorer{StorerMock: genericMocks.NewStorerMock("MiniblockHashByTxHash", 0), sched: sched}, // static storer: epoch never changes
		EpochByHashStorer:           &verifC46HookStorer{StorerMock: genericMocks.NewStorerMock("EpochByHash", 0), sched: sched},           // static storer
		EventsHashesByTxHashStorer:  genericMocks.NewStorerMock("EventsHashesByTxHash", 0),
		Marshalizer:                 &marshal.GogoProtoMarshalizer{},
		Hasher:                      blake2b.NewBlake2b(),
	}
	hr, err := NewHistoryRepository(args)
	if err != nil {
		rt.Fatalf("fixture: %v", err)
	}
	sched.hr = hr
	return hr, sched
}

// verifC46ClaimRerecorded: whether missing notarization data is a violation also for a miniblock that was recorded
// under several block hashes (fork, then the canonical block). Read strictly, the statement wants it ("once the
// corresponding notarizing meta block has been seen, in whichever order"); the repository at /repo HEAD loses the
// data whenever the notification was consumed against the earlier record (sequentially: notification, fork record,
// any notification call, canonical record), see notes/reports/C46.md round 3 and
// notes/fixes/C46-carry-notarization-over-on-rerecord.patch. Until that is decided the class is only counted
// (classes "unasserted:..."); flip to true together with the fix.
const verifC46ClaimRerecorded = false

func verifC46SameNotarization(nonce uint64, hash []byte, n *verifC46Notif) bool {
	return nonce == n.metaNonce && bytes.Equal(hash, n.metaHash)
}

func (m *verifC46Model) check(c *kit.Case, hr *historyRepository) {
	// every transaction of every recorded miniblock
	for txKey, mb := range m.latestByTx {
		rec := m.recByTx[txKey]
		var md *MiniblockMetadata
		var err error
		c.NoPanic("C46:panic", func() { md, err = hr.GetMiniblockMetadataByTxHash([]byte(txKey)) })
		if err != nil {
			c.Violation("C46:lookup-fails", "GetMiniblockMetadataByTxHash(%s) fails: %v\nhistory:\n%s", txKey[:4], err, m.history())
		}
		if !bytes.Equal(md.MiniblockHash, mb.hash) {
			c.Violation("C46:wrong-miniblock-for-tx", "tx %s: metadata of miniblock %x, the latest record containing the tx holds it in %s (%x)\nhistory:\n%s", txKey[:4], md.MiniblockHash, m.mbName(mb), mb.hash, m.history())
		}
		if !bytes.Equal(md.HeaderHash, rec.headerHash) || md.HeaderNonce != rec.nonce || md.Round != rec.round || md.Epoch != rec.epoch {
			slug := "C46:wrong-block"
			for _, old := range m.earlierOfMB[string(mb.hash)] {
				if bytes.Equal(old.headerHash, md.HeaderHash) {
					slug = "C46:reports-earlier-block"
				}
			}
			c.Violation(slug, "tx %s in %s: lookup reports block %s nonce %d round %d epoch %d; the most recently recorded block containing the miniblock is %s nonce %d round %d epoch %d\nhistory:\n%s",
				txKey[:4], m.mbName(mb), md.HeaderHash[:6], md.HeaderNonce, md.Round, md.Epoch, rec.headerHash[:6], rec.nonce, rec.round, rec.epoch, m.history())
		}
		if md.SourceShardID != mb.mb.SenderShardID || md.DestinationShardID != mb.mb.ReceiverShardID || md.Type != int32(mb.mb.Type) {
			c.Violation("C46:wrong-miniblock-fields", "tx %s: metadata %d->%d type %d, miniblock %s type %d", txKey[:4], md.SourceShardID, md.DestinationShardID, md.Type, m.mbName(mb), mb.mb.Type)
		}
	}
	for mbKey, rec := range m.latestByMB {
		ep, err := hr.GetEpochByHash([]byte(mbKey))
		if err != nil || ep != rec.epoch {
			c.Violation("C46:epoch-by-miniblock-hash", "GetEpochByHash(miniblock %x) = %d, %v; latest record is in epoch %d\nhistory:\n%s", mbKey[:4], ep, err, rec.epoch, m.history())
		}
		md, err := hr.getMiniblockMetadataByMiniblockHash([]byte(mbKey))
		if err != nil {
			c.Violation("C46:lookup-fails", "metadata of recorded miniblock %x not found: %v\nhistory:\n%s", mbKey[:4], err, m.history())
		}
		// notarization
		var mbp *verifC46MB
		for _, p := range m.pool {
			if string(p.hash) == mbKey {
				mbp = p
			}
		}
		single := len(m.headersOfMB[mbKey]) == 1
		for _, side := range []string{"source", "destination"} {
			gotNonce, gotHash := md.NotarizedAtSourceInMetaNonce, md.NotarizedAtSourceInMetaHash
			if side == "destination" {
				gotNonce, gotHash = md.NotarizedAtDestinationInMetaNonce, md.NotarizedAtDestinationInMetaHash
			}
			var relevant []*verifC46Notif
			for _, n := range m.notifs[mbKey] {
				if n.side == side || n.side == "both" {
					relevant = append(relevant, n)
				}
			}
			isZero := gotNonce == 0 && len(gotHash) == 0
			matches := false
			for _, n := range relevant {
				if verifC46SameNotarization(gotNonce, gotHash, n) {
					matches = true
				}
			}
			if !isZero && !matches {
				c.Violation("C46:notarization-invented", "%s: notarized-at-%s reported as meta nonce %d hash %q, no such notification was seen\nhistory:\n%s", m.mbName(mbp), side, gotNonce, gotHash, m.history())
			}
			// re-recorded miniblock (several block hashes): see verifC46ClaimRerecorded
			if !single && len(relevant) > 0 && m.lastCallAt > m.lastAt[mbKey] && isZero {
				if verifC46ClaimRerecorded {
					c.Violation("C46:notarization-lost-on-rerecord-"+side, "%s (recorded under %d blocks, last at step %d): notarized-at-%s is empty although a notification was seen (step %d) and notifications were processed at step %d\nhistory:\n%s",
						m.mbName(mbp), len(m.headersOfMB[mbKey]), m.lastAt[mbKey], side, relevant[0].at, m.lastCallAt, m.history())
				}
				m.unasserted[mbKey+side] = true
			}
			// due: recorded under one block only, a notification exists, and a notification call completed after the record
			if single && len(relevant) > 0 && m.lastCallAt > m.firstAt[mbKey] && isZero {
				c.Violation("C46:notarization-missing-"+side, "%s (recorded in one block at step %d): notarized-at-%s is empty although a notification was seen (step %d) and notifications were processed at step %d\nhistory:\n%s",
					m.mbName(mbp), m.firstAt[mbKey], side, relevant[0].at, m.lastCallAt, m.history())
			}
		}
	}
	for _, r := range m.records {
		ep, err := hr.GetEpochByHash(r.headerHash)
		if err != nil || ep != r.epoch {
			c.Violation("C46:epoch-by-header-hash", "GetEpochByHash(header %s) = %d, %v; want %d", r.headerHash[:6], ep, err, r.epoch)
		}
	}
}

// verifC46Driver generates the steps of a history (updating the chain part of the model) and executes them.
type verifC46Driver struct {
	m                    *verifC46Model
	hr                   *historyRepository
	c                    *kit.Case
	rt                   *rapid.T
	sameEpochRerecord    bool
	notifiedBeforeRecord bool
	sched                *verifC46Sched
}

type verifC46Notification struct {
	meta *block.MetaBlock
	hash []byte
}

func verifC46NewDriver(rt *rapid.T, c *kit.Case) *verifC46Driver {
	m := &verifC46Model{
		self:        rapid.SampledFrom([]uint32{0, 1, core.MetachainShardId}).Draw(rt, "self"),
		latestByMB:  map[string]*verifC46Record{},
		firstAt:     map[string]int{},
		lastAt:      map[string]int{},
		unasserted:  map[string]bool{},
		headersOfMB: map[string]map[string]bool{},
		earlierOfMB: map[string][]*verifC46Record{},
		latestByTx:  map[string]*verifC46MB{},
		recByTx:     map[string]*verifC46Record{},
		notifs:      map[string][]*verifC46Notif{},
		epoch:       uint32(rapid.IntRange(0, 3).Draw(rt, "startEpoch")),
		startNonce:  uint64(rapid.IntRange(1, 100).Draw(rt, "startNonce")),
		round:       uint64(rapid.IntRange(1, 1000).Draw(rt, "startRound")),
		metaNonce:   uint64(rapid.IntRange(1, 50).Draw(rt, "startMetaNonce")),
		lastCallAt:  -1,
	}
	hr, sched := verifC46NewRepoWithSched(rt, m.self)
	verifC46GenPool(rt, m, hr)
	return &verifC46Driver{m: m, hr: hr, c: c, rt: rt, sched: sched}
}

// genRecord: a new block on top of the chain, or competing with (replacing) its last 1-2 blocks
func (d *verifC46Driver) genRecord(t *rapid.T) (*verifC46Record, string) {
	m := d.m
	depth := 0
	if len(m.live) > 0 {
		depth = rapid.SampledFrom([]int{0, 0, 0, 1, 1, 2}).Draw(t, "forkDepth")
		if depth > len(m.live) {
			depth = len(m.live)
		}
	}
	dropped := m.live[len(m.live)-depth:]
	m.live = m.live[:len(m.live)-depth]
	var parent *verifC46Record
	nonce := m.startNonce
	if len(m.live) > 0 {
		parent = m.live[len(m.live)-1]
		nonce = parent.nonce + 1
	}
	hdr, hash := m.newHeader(nonce, m.epoch)
	r := &verifC46Record{headerHash: hash, header: hdr, nonce: nonce, round: m.round, epoch: m.epoch, body: &block.Body{}, parent: parent}
	// a chain holds every miniblock and every transaction at most once
	liveMB, liveTx := map[*verifC46MB]bool{}, map[string]bool{}
	for _, lr := range m.live {
		for _, mb := range lr.mbs {
			liveMB[mb] = true
			for _, tx := range mb.mb.TxHashes {
				liveTx[string(tx)] = true
			}
		}
	}
	free := func(mb *verifC46MB) bool {
		if liveMB[mb] {
			return false
		}
		for _, tx := range mb.mb.TxHashes {
			if liveTx[string(tx)] {
				return false
			}
		}
		return true
	}
	var fromDropped, others []*verifC46MB
	isDropped := map[*verifC46MB]bool{}
	for _, dr := range dropped {
		for _, mb := range dr.mbs {
			if !isDropped[mb] && free(mb) {
				isDropped[mb] = true
				fromDropped = append(fromDropped, mb)
			}
		}
	}
	for _, mb := range m.pool {
		if !isDropped[mb] && free(mb) {
			others = append(others, mb)
		}
	}
	k := rapid.SampledFrom([]int{1, 1, 2, 2, 3, 0}).Draw(t, "numMBs")
	for i := 0; i < k; i++ {
		var cands []*verifC46MB
		for _, mb := range fromDropped {
			if free(mb) {
				cands = append(cands, mb)
			}
		}
		if len(cands) == 0 || rapid.IntRange(0, 3).Draw(t, "fresh") == 0 {
			cands = cands[:0:0]
			for _, mb := range others {
				if free(mb) {
					cands = append(cands, mb)
				}
			}
		}
		if len(cands) == 0 {
			break
		}
		mb := cands[rapid.IntRange(0, len(cands)-1).Draw(t, "pick")]
		liveMB[mb] = true
		for _, tx := range mb.mb.TxHashes {
			liveTx[string(tx)] = true
		}
		r.mbs = append(r.mbs, mb)
	}
	for _, mb := range r.mbs {
		r.body.MiniBlocks = append(r.body.MiniBlocks, mb.mb)
	}
	if rapid.IntRange(0, 5).Draw(t, "peerBlock") == 0 {
		// validator-info miniblocks are not indexed; they must not disturb anything
		r.body.MiniBlocks = append(r.body.MiniBlocks, &block.MiniBlock{Type: block.PeerBlock, SenderShardID: core.MetachainShardId, ReceiverShardID: m.self, TxHashes: [][]byte{[]byte("validator info")}})
	}
	m.records = append(m.records, r)
	m.live = append(m.live, r)
	what := "new"
	if depth > 0 {
		what = fmt.Sprintf("competing (replaces the last %d)", depth)
		d.c.Class("event:competing-block")
	}
	if len(r.mbs) == 0 {
		d.c.Class("event:empty-block")
	}
	return r, what
}

// genRecordAgain: the same block once more - a replay of the chain's last block, or an earlier dropped block
// chosen again by fork choice (possible when the block it was built on is still in the chain)
func (d *verifC46Driver) genRecordAgain(t *rapid.T) (*verifC46Record, string) {
	m := d.m
	r := m.live[len(m.live)-1]
	what := "again (replay)"
	if rapid.IntRange(0, 2).Draw(t, "switchBack") == 0 {
		var cands []*verifC46Record
		for _, old := range m.records {
			isLive := false
			parentAt := -1
			for i, lr := range m.live {
				if lr == old {
					isLive = true
				}
				if lr == old.parent {
					parentAt = i
				}
			}
			if !isLive && (old.parent == nil || parentAt >= 0) {
				cands = append(cands, old)
			}
		}
		if len(cands) > 0 {
			r = cands[rapid.IntRange(0, len(cands)-1).Draw(t, "which")]
			keep := 0
			for i, lr := range m.live {
				if lr == r.parent {
					keep = i + 1
				}
			}
			m.live = append(m.live[:keep:keep], r)
			what = "again (switch back)"
			d.c.Class("event:switch-back")
		}
	}
	d.c.Class("event:record-again")
	return r, what
}

// noteRecord updates the model for a RecordBlock call (before or after the call itself)
func (d *verifC46Driver) noteRecord(r *verifC46Record, what string) {
	m := d.m
	m.clock++
	names := make([]string, len(r.mbs))
	for i, mb := range r.mbs {
		names[i] = m.mbName(mb)
		k := string(mb.hash)
		if _, ok := m.firstAt[k]; !ok && len(m.notifs[k]) > 0 {
			d.notifiedBeforeRecord = true
			d.c.Class("event:notified-before-record")
		}
		for _, old := range m.earlierOfMB[k] {
			if !bytes.Equal(old.headerHash, r.headerHash) && old.epoch == r.epoch {
				d.sameEpochRerecord = true
			}
		}
	}
	m.logf("%s RecordBlock(%s nonce %d round %d epoch %d: %s)", what, r.headerHash[:6], r.nonce, r.round, r.epoch, strings.Join(names, ", "))
	m.applyRecord(r)
}

func (d *verifC46Driver) execRecord(r *verifC46Record) {
	var err error
	d.c.NoPanic("C46:panic", func() { err = d.hr.RecordBlock(r.headerHash, r.header, r.body, nil, nil) })
	if err != nil {
		d.rt.Fatalf("fixture: RecordBlock: %v", err)
	}
}

// execRecordInterleaved runs RecordBlock and delivers the notification after its k-th storage write (see
// verifC46Sched). If the call makes fewer than k writes the notification is delivered right after it.
func (d *verifC46Driver) execRecordInterleaved(r *verifC46Record, n *verifC46Notification, k int) {
	s := d.sched
	s.count, s.fireAt, s.notif, s.fired, s.firedInside, s.done = 0, k, n, false, false, nil
	s.recorderGID = verifC46GoroutineID()
	d.execRecord(r)
	s.recorderGID = 0
	if s.done != nil {
		<-s.done
		s.done = nil
	}
	switch {
	case !s.fired:
		d.execNotify(n)
		d.m.lastCallAt = d.m.clock
		d.c.Class("interleave:delivered-after-the-record")
	case s.firedInside:
		d.c.Class("interleave:started-inside-the-critical-section")
	default:
		d.c.Class("interleave:between-two-writes")
	}
	d.m.logf("   (the notification above was delivered after storage write %d of %d of the RecordBlock above; fired=%v insideCriticalSection=%v)", k, s.count, s.fired, s.firedInside)
	s.notif = nil
}

// genNotify builds a meta block notification and notes it in the model
func (d *verifC46Driver) genNotify(t *rapid.T, empty bool) *verifC46Notification {
	return d.genNotifyAbout(t, empty, nil)
}

// genNotifyAbout: when prefer is not empty the first notified miniblock is one of them
func (d *verifC46Driver) genNotifyAbout(t *rapid.T, empty bool, prefer []*verifC46MB) *verifC46Notification {
	m := d.m
	m.clock++
	m.metaNonce++
	metaHash := []byte(fmt.Sprintf("meta%03d_%d......................", m.clock, m.metaNonce))[:32]
	meta := &block.MetaBlock{Nonce: m.metaNonce, Epoch: m.epoch, Round: m.round}
	var desc []string
	if !empty {
		byShard := map[uint32][]block.MiniBlockHeader{}
		k := rapid.IntRange(1, 3).Draw(t, "numNotified")
		for i := 0; i < k; i++ {
			mb := m.pool[rapid.IntRange(0, len(m.pool)-1).Draw(t, "notifMB")]
			if i == 0 && len(prefer) > 0 {
				mb = prefer[rapid.IntRange(0, len(prefer)-1).Draw(t, "notifOfThisBlock")]
			}
			container := mb.mb.SenderShardID
			if rapid.Bool().Draw(t, "atDestination") {
				container = mb.mb.ReceiverShardID
			}
			mbh := block.MiniBlockHeader{Hash: mb.hash, SenderShardID: mb.mb.SenderShardID, ReceiverShardID: mb.mb.ReceiverShardID, TxCount: uint32(len(mb.mb.TxHashes)), Type: mb.mb.Type}
			byShard[container] = append(byShard[container], mbh)
			side := verifC46Side(mb.mb, container)
			m.notifs[string(mb.hash)] = append(m.notifs[string(mb.hash)], &verifC46Notif{at: m.clock, side: side, metaNonce: m.metaNonce, metaHash: metaHash})
			desc = append(desc, fmt.Sprintf("%s under shard %s (%s)", m.mbName(mb), verifC46ShardName(container), side))
		}
		if rapid.Bool().Draw(t, "noise") {
			// a miniblock between two other shards: of no concern to this node
			a, b := (m.self+1)%3, (m.self+2)%3
			if m.self == core.MetachainShardId {
				a, b = 0, 1
			}
			byShard[a] = append(byShard[a], block.MiniBlockHeader{Hash: []byte("unrelated miniblock hash........"), SenderShardID: a, ReceiverShardID: b, TxCount: 1})
		}
		for _, sh := range verifC46Shards { // deterministic order
			hs, ok := byShard[sh]
			if !ok {
				continue
			}
			if sh == core.MetachainShardId {
				meta.MiniBlockHeaders = append(meta.MiniBlockHeaders, hs...)
			} else {
				meta.ShardInfo = append(meta.ShardInfo, block.ShardData{ShardID: sh, HeaderHash: []byte("shard header"), ShardMiniBlockHeaders: hs})
			}
		}
	} else {
		d.c.Class("event:empty-notification")
	}
	m.logf("OnNotarizedBlocks(meta nonce %d hash %s: %s)", m.metaNonce, metaHash[:7], strings.Join(desc, "; "))
	return &verifC46Notification{meta: meta, hash: metaHash}
}

func (d *verifC46Driver) execNotify(n *verifC46Notification) {
	d.c.NoPanic("C46:panic", func() {
		d.hr.OnNotarizedBlocks(core.MetachainShardId, []data.HeaderHandler{n.meta}, [][]byte{n.hash})
	})
}

func (d *verifC46Driver) finish() {
	if len(d.m.unasserted) > 0 {
		d.c.Class("unasserted:rerecorded-miniblock-without-notarization-data")
	}
	if d.sameEpochRerecord {
		d.c.Class("case:miniblock-in-two-blocks-of-one-epoch")
	}
	if d.sameEpochRerecord || d.notifiedBeforeRecord {
		d.c.NonTrivial(d.m.history())
		d.c.Sample("self %s\n%s", verifC46ShardName(d.m.self), d.m.history())
	}
}

func TestVerifC46_LookupReportsLatestBlock(t *testing.T) {
	kit.Run(t, "C46", kit.Budget{Quick: 2000, Thorough: 20000, Steps: 25},
		"self shard 0/1/meta; pool of 5-10 miniblocks (intra, from me, to me, to/from meta; 1-3 tx hashes out of 6/12/24, so a tx may sit in two miniblocks); history over a forking chain: new block (on top, or competing = replacing the last 1-2 blocks, body biased to the miniblocks of the dropped blocks; a chain holds a miniblock/tx once), the same block again (replay of the last block, or switch back to a dropped block whose parent is still in the chain), meta-block notification (miniblock headers under source/destination shard, also for not-yet-recorded miniblocks, plus unrelated noise), a record with a notification about one of its miniblocks delivered on another goroutine after a drawn storage write of that RecordBlock call (harness-owned schedule through hook storers), empty notification, epoch increment; invariant after every step via GetMiniblockMetadataByTxHash/GetEpochByHash against the model; non-trivial = a miniblock recorded under two different blocks of one epoch, or notified before it was recorded; distinct by history text",
		func(rt *rapid.T, c *kit.Case) {
			d := verifC46NewDriver(rt, c)
			m := d.m
			rt.Repeat(map[string]func(*rapid.T){
				"record": func(t *rapid.T) {
					r, what := d.genRecord(t)
					d.noteRecord(r, what)
					d.execRecord(r)
				},
				"recordAgain": func(t *rapid.T) {
					if len(m.live) == 0 {
						t.Skip()
					}
					r, what := d.genRecordAgain(t)
					d.noteRecord(r, what)
					d.execRecord(r)
				},
				"notify": func(t *rapid.T) {
					d.execNotify(d.genNotify(t, false))
					m.lastCallAt = m.clock
				},
				"recordWithNotificationInside": func(t *rapid.T) {
					// schedule-owning step: a notification about a miniblock of this very block is processed by
					// another goroutine after a drawn storage write of the RecordBlock call
					var r *verifC46Record
					var what string
					if len(m.live) > 0 && rapid.IntRange(0, 3).Draw(t, "again") == 0 {
						r, what = d.genRecordAgain(t)
					} else {
						r, what = d.genRecord(t)
					}
					d.noteRecord(r, what+" [interleaved]")
					n := d.genNotifyAbout(t, false, r.mbs)
					k := rapid.IntRange(1, 2+4*len(r.mbs)).Draw(t, "afterWrite")
					d.execRecordInterleaved(r, n, k)
				},
				"flush": func(t *rapid.T) {
					d.execNotify(d.genNotify(t, true))
					m.lastCallAt = m.clock
				},
				"nextEpoch": func(t *rapid.T) {
					if rapid.IntRange(0, 2).Draw(t, "really") != 0 {
						t.Skip()
					}
					m.clock++
					m.epoch++
					m.logf("epoch -> %d", m.epoch)
				},
				"": func(t *rapid.T) { m.check(c, d.hr) },
			})
			d.finish()
		})
}

// Race variant (built with -race): the block records are issued from one goroutine (in order) while the
// notifications are issued from another one, as in production (OnNotarizedBlocks runs on its own goroutine).
// After both finished and one more (empty) notification was processed, the final state must satisfy the
// same invariant; the race detector watches the repository's internals.
func TestVerifC46Race_ConcurrentRecordsAndNotifications(t *testing.T) {
	kit.Run(t, "C46", kit.Budget{Quick: 150, Thorough: 1500},
		"same generators; 4-16 block records and 2-12 notifications prepared in advance, then executed concurrently (records in order on one goroutine, notifications in order on another), final empty notification, then the invariant; non-trivial as above",
		func(rt *rapid.T, c *kit.Case) {
			d := verifC46NewDriver(rt, c)
			m := d.m
			var recs []*verifC46Record
			var notifs []*verifC46Notification
			steps := rapid.IntRange(6, 28).Draw(rt, "steps")
			for i := 0; i < steps; i++ {
				switch rapid.IntRange(0, 6).Draw(rt, "step") {
				case 0, 1, 2:
					r, what := d.genRecord(rt)
					d.noteRecord(r, what)
					recs = append(recs, r)
				case 3:
					if len(m.live) > 0 {
						r, what := d.genRecordAgain(rt)
						d.noteRecord(r, what)
						recs = append(recs, r)
					}
				case 4, 5:
					notifs = append(notifs, d.genNotify(rt, false))
				default:
					m.clock++
					m.epoch++
					m.logf("epoch -> %d", m.epoch)
				}
			}
			start := make(chan struct{})
			done := make(chan struct{}, 2)
			go func() {
				<-start
				for _, r := range recs {
					_ = d.hr.RecordBlock(r.headerHash, r.header, r.body, nil, nil)
				}
				done <- struct{}{}
			}()
			go func() {
				<-start
				for _, n := range notifs {
					d.hr.OnNotarizedBlocks(core.MetachainShardId, []data.HeaderHandler{n.meta}, [][]byte{n.hash})
				}
				done <- struct{}{}
			}()
			close(start)
			<-done
			<-done
			m.logf("-- both goroutines finished (the two call sequences ran concurrently; the order above is only the order of generation)")
			d.execNotify(d.genNotify(rt, true))
			m.lastCallAt = m.clock
			m.check(c, d.hr)
			d.finish()
		})
}

// regression: minimal counterexample of suspected defect 20 - a miniblock re-recorded in a competing block
// of the same epoch.
func TestVerifC46_Regress(t *testing.T) {
	kit.Silence()
	hr := verifC46NewRepo(t, 0)
	mb := &block.MiniBlock{SenderShardID: 1, ReceiverShardID: 0, TxHashes: [][]byte{[]byte("txA")}}
	body := &block.Body{MiniBlocks: []*block.MiniBlock{mb}}
	_ = hr.RecordBlock([]byte("H1"), &block.Header{Nonce: 7, Round: 70, Epoch: 3}, body, nil, nil)
	_ = hr.RecordBlock([]byte("H2"), &block.Header{Nonce: 7, Round: 71, Epoch: 3}, body, nil, nil)
	md, err := hr.GetMiniblockMetadataByTxHash([]byte("txA"))
	if err != nil {
		t.Fatalf("fixture: %v", err)
	}
	if string(md.HeaderHash) != "H2" || md.Round != 71 {
		kit.FailPlain(t, "C46", "C46:reports-earlier-block", "miniblock recorded in H1 (nonce 7, round 70) and then in the competing H2 (nonce 7, round 71), same epoch: lookup of txA reports %s round %d", md.HeaderHash, md.Round)
	}
	// and back again: H1 re-committed after H2
	_ = hr.RecordBlock([]byte("H1"), &block.Header{Nonce: 7, Round: 70, Epoch: 3}, body, nil, nil)
	md, _ = hr.GetMiniblockMetadataByTxHash([]byte("txA"))
	if string(md.HeaderHash) != "H1" {
		kit.FailPlain(t, "C46", "C46:reports-earlier-block", "H1, H2, H1 again: lookup of txA reports %s", md.HeaderHash)
	}
	// recording the very same block twice must keep the notarization data already patched in
	hr = verifC46NewRepo(t, 0)
	_ = hr.RecordBlock([]byte("H1"), &block.Header{Nonce: 7, Round: 70, Epoch: 3}, body, nil, nil)
	mbHash, _ := hr.computeMiniblockHash(mb)
	meta := &block.MetaBlock{Nonce: 9, ShardInfo: []block.ShardData{{ShardID: 0, ShardMiniBlockHeaders: []block.MiniBlockHeader{{Hash: mbHash, SenderShardID: 1, ReceiverShardID: 0}}}}}
	hr.OnNotarizedBlocks(core.MetachainShardId, []data.HeaderHandler{meta}, [][]byte{[]byte("M9")})
	_ = hr.RecordBlock([]byte("H1"), &block.Header{Nonce: 7, Round: 70, Epoch: 3}, body, nil, nil)
	md, _ = hr.GetMiniblockMetadataByTxHash([]byte("txA"))
	if md.NotarizedAtDestinationInMetaNonce != 9 {
		kit.FailPlain(t, "C46", "C46:notarization-missing-destination", "record H1, notification (meta 9, at destination), record H1 again: notarized-at-destination nonce is %d", md.NotarizedAtDestinationInMetaNonce)
	}
}
