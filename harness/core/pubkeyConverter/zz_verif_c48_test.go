package pubkeyConverter_test

import (
	"bytes"
	"encoding/hex"
	"fmt"
	"strings"
	"testing"

	"github.com/ElrondNetwork/elrond-go/core"
	"github.com/ElrondNetwork/elrond-go/core/pubkeyConverter"
	kit "github.com/ElrondNetwork/elrond-go/verifkit"
	"github.com/btcsuite/btcutil/bech32"
	"pgregory.net/rapid"
)

// C48: Address text encoding round-trips.
//
// Trusted base: github.com/btcsuite/btcutil/bech32 (Encode / ConvertBits are used to *build* texts with
// another human-readable prefix; the converter under test is elrond-go's wrapper around the same
// library) and encoding/hex.

const verifC48Charset = "qpzry9x8gf2tvdw0s3jn54khce6mua7l"

// bech32 texts are limited to 90 characters (BIP-173, enforced by bech32.Decode): "erd" + "1" + data + 6
// checksum characters leaves 80 data characters = 400 bits = 50 bytes. Longer configured lengths encode
// but can never be decoded; production configures 32 (domain restriction, see props/C48.json).
var verifC48Bech32Lens = []int{2, 20, 32, 50}
var verifC48HexLens = []int{2, 20, 32, 64, 96}

func verifC48GenBytes(rt *rapid.T, n int, label string) []byte {
	b := make([]byte, n)
	switch rapid.IntRange(0, 9).Draw(rt, label+"Kind") {
	case 0: // all zero
	case 1:
		for i := range b {
			b[i] = 0xff
		}
	case 2: // smart-contract-like: leading zeros, random tail
		tail := rapid.SliceOfN(rapid.Byte(), n, n).Draw(rt, label+"Tail")
		copy(b, tail)
		for i := 0; i < n && i < 8; i++ {
			b[i] = 0
		}
	default:
		copy(b, rapid.SliceOfN(rapid.Byte(), n, n).Draw(rt, label))
	}
	return b
}

// verifC48OwnBech32 is an implementation of BIP-173 written for this harness (no library): regroup the bytes
// into 5-bit symbols (zero padded), append the 6-symbol BCH checksum over the expanded prefix, map to the alphabet.
func verifC48OwnBech32(hrp string, b []byte) string {
	var syms []byte
	acc, bits := uint32(0), uint(0)
	for _, x := range b {
		acc = acc<<8 | uint32(x)
		bits += 8
		for bits >= 5 {
			bits -= 5
			syms = append(syms, byte(acc>>bits)&31)
		}
	}
	if bits > 0 {
		syms = append(syms, byte(acc<<(5-bits))&31)
	}
	polymod := func(values []byte) uint32 {
		gen := []uint32{0x3b6a57b2, 0x26508e6d, 0x1ea119fa, 0x3d4233dd, 0x2a1462b3}
		chk := uint32(1)
		for _, v := range values {
			top := chk >> 25
			chk = (chk&0x1ffffff)<<5 ^ uint32(v)
			for i := uint(0); i < 5; i++ {
				if (top>>i)&1 == 1 {
					chk ^= gen[i]
				}
			}
		}
		return chk
	}
	var values []byte
	for i := 0; i < len(hrp); i++ {
		values = append(values, hrp[i]>>5)
	}
	values = append(values, 0)
	for i := 0; i < len(hrp); i++ {
		values = append(values, hrp[i]&31)
	}
	values = append(values, syms...)
	values = append(values, 0, 0, 0, 0, 0, 0)
	mod := polymod(values) ^ 1
	out := []byte(hrp + "1")
	for _, v := range syms {
		out = append(out, verifC48Charset[v])
	}
	for i := 0; i < 6; i++ {
		out = append(out, verifC48Charset[(mod>>uint(5*(5-i)))&31])
	}
	return string(out)
}

// verifC48Bech32Text builds a valid bech32 text for any hrp with the reference library.
func verifC48Bech32Text(hrp string, b []byte) (string, error) {
	conv, err := bech32.ConvertBits(b, 8, 5, true)
	if err != nil {
		return "", err
	}
	return bech32.Encode(hrp, conv)
}

// verifC48Canonical is the generic acceptance oracle: whatever text is accepted must be a spelling
// (letter case aside) of the encoding of the returned bytes, which must have the configured length.
func verifC48Canonical(c *kit.Case, name string, conv core.PubkeyConverter, s string, what string) (accepted bool) {
	var b []byte
	var err error
	c.NoPanic("C48:"+name+":decode-panic", func() { b, err = conv.Decode(s) })
	if err != nil {
		return false
	}
	if len(b) != conv.Len() {
		c.Violation("C48:"+name+":accepted-wrong-length", "%s: Decode(%q) accepted and returned %d bytes, configured length %d", what, s, len(b), conv.Len())
	}
	if enc := conv.Encode(b); strings.ToLower(s) != enc {
		c.Violation("C48:"+name+":accepted-noncanonical", "%s: Decode(%q) accepted as %x whose encoding is %q", what, s, b, enc)
	}
	return true
}

func verifC48MustReject(c *kit.Case, name string, conv core.PubkeyConverter, s string, slug, what string) {
	var b []byte
	var err error
	c.NoPanic("C48:"+name+":decode-panic", func() { b, err = conv.Decode(s) })
	if err == nil {
		c.Violation("C48:"+name+":"+slug, "%s: Decode(%q) accepted (-> %x), configured length %d", what, s, b, conv.Len())
	}
}

// verifC48BufferReuse: the converters are shared instances (one address converter per node, handed to API,
// logging, genesis and transaction code) and callers are free to keep one buffer and refill it between calls
// (e.g. a loop producing consecutive addresses). Encode must be a function of the bytes it is given now, not
// of the slice identity or of earlier calls: after every in-place modification the text must be the reference
// encoding of the current content, decode back to it, and equal the text obtained from a fresh copy.
func verifC48BufferReuse(rt *rapid.T, c *kit.Case, name string, conv core.PubkeyConverter, b []byte, ref func([]byte) string) {
	buf := append([]byte{}, b...)
	if got := conv.Encode(buf); got != ref(b) {
		c.Violation("C48:"+name+":encode-differs-from-reference", "Encode(%x) = %q, reference %q", b, got, ref(b))
	}
	steps := rapid.IntRange(1, 3).Draw(rt, "reuseSteps")
	for i := 0; i < steps; i++ {
		switch rapid.IntRange(0, 3).Draw(rt, "reuseEdit") {
		case 0: // next address: increment as a big-endian counter
			for j := len(buf) - 1; j >= 0; j-- {
				buf[j]++
				if buf[j] != 0 {
					break
				}
			}
		case 1:
			bit := rapid.IntRange(0, 8*len(buf)-1).Draw(rt, "reuseBit")
			buf[bit/8] ^= 1 << uint(bit%8)
		case 2: // refill completely
			copy(buf, rapid.SliceOfN(rapid.Byte(), len(buf), len(buf)).Draw(rt, "reuseFill"))
		default: // unchanged content, same buffer
		}
		want := append([]byte{}, buf...)
		var got string
		c.NoPanic("C48:"+name+":encode-panic", func() { got = conv.Encode(buf) })
		if !bytes.Equal(buf, want) {
			c.Violation("C48:"+name+":encode-modifies-input", "Encode changed its input from %x to %x", want, buf)
		}
		if got != ref(want) {
			c.Violation("C48:"+name+":encode-depends-on-history", "after refilling the caller's buffer in place (step %d, first content %x): Encode(%x) = %q, the encoding of these bytes is %q", i+1, b, want, got, ref(want))
		}
		back, err := conv.Decode(got)
		if err != nil || !bytes.Equal(back, want) {
			c.Violation("C48:"+name+":roundtrip-differs", "reused buffer: Decode(Encode(%x)) = %x, %v", want, back, err)
		}
		if fresh := conv.Encode(append([]byte{}, want...)); fresh != got {
			c.Violation("C48:"+name+":encode-depends-on-history", "Encode(%x) = %q from the reused buffer and %q from a fresh copy", want, got, fresh)
		}
		// the decoded slice belongs to the caller as well: scribbling over it must not influence later results
		for j := range back {
			back[j] ^= 0xff
		}
		if again, err := conv.Decode(got); err != nil || !bytes.Equal(again, want) {
			c.Violation("C48:"+name+":decode-depends-on-history", "Decode(%q) = %x, %v after the caller modified the previously returned slice; want %x", got, again, err, want)
		}
		c.Class("buffer-reuse-step")
	}
}

func TestVerifC48_Bech32(t *testing.T) {
	convs := map[int]core.PubkeyConverter{}
	for n := 2; n <= 50; n += 2 {
		cv, err := pubkeyConverter.NewBech32PubkeyConverter(n)
		if err != nil {
			t.Fatalf("fixture: %v", err)
		}
		convs[n] = cv
	}
	kit.Run(t, "C48", kit.Budget{Quick: 12000, Thorough: 200000},
		"bech32 converter of length 2/20/32/50 or any even 2..50; bytes all-zero/all-ff/zero-prefixed/random; round trip, injectivity on a one-bit neighbour, 1-3 re-encodings of one caller buffer refilled in place (counter increment, bit flip, full refill, unchanged) on the shared converter instance, text format, rejection of: other length, other prefix, every kind of one-character substitution; acceptance oracle (accepted => lower(text) == Encode(result)) on upper/mixed case, deletion, insertion, transposition and arbitrary text; non-trivial = the case exercised a one-character corruption and the upper-case spelling (all cases do), distinct by encoded text",
		func(rt *rapid.T, c *kit.Case) {
			var n int
			if rapid.IntRange(0, 4).Draw(rt, "anyLen") == 0 {
				n = 2 * rapid.IntRange(1, 25).Draw(rt, "halfLen")
			} else {
				n = rapid.SampledFrom(verifC48Bech32Lens).Draw(rt, "len")
			}
			conv := convs[n]
			b := verifC48GenBytes(rt, n, "b")

			var s string
			c.NoPanic("C48:bech32:encode-panic", func() { s = conv.Encode(b) })
			if s == "" {
				c.Violation("C48:bech32:encode-empty", "Encode(%x) of the configured length %d returned the empty string", b, n)
			}
			// text format (independent of Decode): prefix, separator, length, alphabet
			wantLen := 4 + (8*n+4)/5 + 6
			if !strings.HasPrefix(s, "erd1") || len(s) != wantLen || strings.Trim(s[4:], verifC48Charset) != "" {
				c.Violation("C48:bech32:encode-format", "Encode(%x) = %q: want erd1 + %d characters of the bech32 alphabet", b, s, wantLen-4)
			}
			if ref, err := verifC48Bech32Text("erd", b); err != nil || ref != s {
				c.Violation("C48:bech32:encode-differs-from-reference", "Encode(%x) = %q, reference bech32 text %q (%v)", b, s, ref, err)
			}
			if own := verifC48OwnBech32("erd", b); own != s {
				c.Violation("C48:bech32:encode-differs-from-bip173", "Encode(%x) = %q, BIP-173 computed by the harness gives %q", b, s, own)
			}
			// round trip
			var back []byte
			var err error
			c.NoPanic("C48:bech32:decode-panic", func() { back, err = conv.Decode(s) })
			if err != nil {
				c.Violation("C48:bech32:roundtrip-rejected", "Decode(Encode(%x)) = Decode(%q) failed: %v", b, s, err)
			}
			if !bytes.Equal(back, b) {
				c.Violation("C48:bech32:roundtrip-differs", "Decode(Encode(%x)) = %x (text %q)", b, back, s)
			}
			// injectivity on the nearest neighbour
			b2 := append([]byte{}, b...)
			bit := rapid.IntRange(0, 8*n-1).Draw(rt, "bit")
			b2[bit/8] ^= 1 << uint(bit%8)
			if s2 := conv.Encode(b2); s2 == s {
				c.Violation("C48:bech32:encode-collision", "Encode(%x) == Encode(%x) == %q", b, b2, s)
			}
			verifC48BufferReuse(rt, c, "bech32", conv, b, func(x []byte) string { return verifC48OwnBech32("erd", x) })

			// other decoded length: a well-formed erd text of another length
			other := 2 * rapid.IntRange(1, 25).Draw(rt, "otherHalfLen")
			if other != n {
				ob := verifC48GenBytes(rt, other, "ob")
				otherText := convs[other].Encode(ob)
				verifC48MustReject(c, "bech32", conv, otherText, "accepted-other-length", fmt.Sprintf("valid erd text of %d bytes", other))
				c.Class("reject:other-length")
			}
			// other prefix: a well-formed bech32 text of the same bytes under another hrp
			hrp := rapid.SampledFrom([]string{"er", "erdd", "erd1", "bc", "tb", "xrd", "erc", "e", "dre", "1erd", "erd-", "moa"}).Draw(rt, "hrp")
			if hs, herr := verifC48Bech32Text(hrp, b); herr == nil && len(hs) <= 90 {
				if _, _, derr := bech32.Decode(hs); derr == nil { // generator health: it is a valid bech32 text
					verifC48MustReject(c, "bech32", conv, hs, "accepted-other-prefix", "valid bech32 text with prefix "+hrp)
					c.Class("reject:other-prefix")
				}
			}
			// one-character substitution anywhere (prefix, separator, data, checksum)
			pos := rapid.IntRange(0, len(s)-1).Draw(rt, "pos")
			var repl byte
			switch rapid.IntRange(0, 3).Draw(rt, "replKind") {
			case 0, 1:
				repl = verifC48Charset[rapid.IntRange(0, 31).Draw(rt, "replIdx")]
			case 2:
				repl = byte(rapid.IntRange(33, 126).Draw(rt, "replAscii"))
			default:
				repl = byte(rapid.IntRange(0, 255).Draw(rt, "replByte"))
			}
			if repl != s[pos] {
				cs := s[:pos] + string([]byte{repl}) + s[pos+1:]
				where := "data"
				switch {
				case pos < 3:
					where = "prefix"
				case pos == 3:
					where = "separator"
				case pos >= len(s)-6:
					where = "checksum"
				}
				verifC48MustReject(c, "bech32", conv, cs, "accepted-one-char-substitution", "one character substituted in the "+where)
				c.Class("reject:substitution-" + where)
			}
			// upper-case spelling: if accepted it must denote the same bytes
			up := strings.ToUpper(s)
			if verifC48Canonical(c, "bech32", conv, up, "upper-case spelling") {
				c.Class("accepted:upper-case")
				ub, _ := conv.Decode(up)
				if !bytes.Equal(ub, b) {
					c.Violation("C48:bech32:upper-case-other-bytes", "Decode(%q) = %x, Decode(%q) = %x", up, ub, s, b)
				}
			}
			// other edits: only the acceptance oracle applies
			var es, what string
			switch rapid.IntRange(0, 5).Draw(rt, "edit") {
			case 0:
				p := rapid.IntRange(0, len(s)-1).Draw(rt, "mixPos")
				es, what = s[:p]+strings.ToUpper(s[p:p+1])+s[p+1:], "mixed case"
			case 1:
				p := rapid.IntRange(0, len(s)-1).Draw(rt, "delPos")
				es, what = s[:p]+s[p+1:], "one character deleted"
			case 2:
				p := rapid.IntRange(0, len(s)).Draw(rt, "insPos")
				ch := verifC48Charset[rapid.IntRange(0, 31).Draw(rt, "insIdx")]
				es, what = s[:p]+string([]byte{ch})+s[p:], "one character inserted"
			case 3:
				p := rapid.IntRange(0, len(s)-2).Draw(rt, "swapPos")
				es, what = s[:p]+s[p+1:p+2]+s[p:p+1]+s[p+2:], "two neighbours swapped"
			case 4:
				junk := rapid.SampledFrom([]string{" ", "\n", "\x00", "0x", "erd1"}).Draw(rt, "junk")
				if rapid.Bool().Draw(rt, "trail") {
					es, what = s+junk, "text with trailing junk"
				} else {
					es, what = junk+s, "text with leading junk"
				}
			default:
				es, what = rapid.String().Draw(rt, "arbitrary"), "arbitrary text"
			}
			if verifC48Canonical(c, "bech32", conv, es, what) {
				c.Class("accepted:" + what)
			} else {
				c.Class("rejected:" + what)
			}

			// Encode of an input of another length: documented to return "" (never panics)
			wl := rapid.IntRange(0, 70).Draw(rt, "wrongLen")
			if wl != n {
				var ws string
				c.NoPanic("C48:bech32:encode-panic", func() { ws = conv.Encode(make([]byte, wl)) })
				if ws != "" {
					c.Violation("C48:bech32:encode-wrong-length", "Encode of %d bytes with configured length %d returned %q", wl, n, ws)
				}
			}
			c.NonTrivial(s)
			c.Sample("len %d bytes %x text %s", n, b, s)
		})
}

func TestVerifC48_Hex(t *testing.T) {
	convs := map[int]core.PubkeyConverter{}
	for _, n := range verifC48HexLens {
		cv, err := pubkeyConverter.NewHexPubkeyConverter(n)
		if err != nil {
			t.Fatalf("fixture: %v", err)
		}
		convs[n] = cv
	}
	kit.Run(t, "C48", kit.Budget{Quick: 8000, Thorough: 100000},
		"hex converter of length 2/20/32/64/96; round trip, injectivity, re-encodings of a caller buffer refilled in place, rejection of other lengths (a byte more/less, a nibble more) and of a non-hex character; acceptance oracle on upper/mixed case and arbitrary text; non-trivial = all, distinct by text",
		func(rt *rapid.T, c *kit.Case) {
			n := rapid.SampledFrom(verifC48HexLens).Draw(rt, "len")
			conv := convs[n]
			b := verifC48GenBytes(rt, n, "b")
			var s string
			c.NoPanic("C48:hex:encode-panic", func() { s = conv.Encode(b) })
			if s != hex.EncodeToString(b) {
				c.Violation("C48:hex:encode-differs-from-reference", "Encode(%x) = %q", b, s)
			}
			var back []byte
			var err error
			c.NoPanic("C48:hex:decode-panic", func() { back, err = conv.Decode(s) })
			if err != nil {
				c.Violation("C48:hex:roundtrip-rejected", "Decode(Encode(%x)) failed: %v", b, err)
			}
			if !bytes.Equal(back, b) {
				c.Violation("C48:hex:roundtrip-differs", "Decode(Encode(%x)) = %x", b, back)
			}
			b2 := append([]byte{}, b...)
			bit := rapid.IntRange(0, 8*n-1).Draw(rt, "bit")
			b2[bit/8] ^= 1 << uint(bit%8)
			if conv.Encode(b2) == s {
				c.Violation("C48:hex:encode-collision", "Encode(%x) == Encode(%x)", b, b2)
			}
			verifC48BufferReuse(rt, c, "hex", conv, b, hex.EncodeToString)
			// other decoded lengths
			var ws string
			switch rapid.IntRange(0, 4).Draw(rt, "lenEdit") {
			case 0:
				ws = s + "00"
			case 1:
				ws = s[2:]
			case 2:
				ws = s + "0"
			case 3:
				ws = ""
			default:
				ws = hex.EncodeToString(make([]byte, rapid.IntRange(0, 100).Draw(rt, "otherLen")))
			}
			if len(ws) != 2*n {
				verifC48MustReject(c, "hex", conv, ws, "accepted-other-length", fmt.Sprintf("hex text of %d characters", len(ws)))
			}
			// a non-hex character
			pos := rapid.IntRange(0, len(s)-1).Draw(rt, "pos")
			bad := rapid.SampledFrom([]byte("gGxX zZ-_\x00\xff/:@`")).Draw(rt, "bad")
			verifC48MustReject(c, "hex", conv, s[:pos]+string([]byte{bad})+s[pos+1:], "accepted-non-hex", "non-hex character")
			// other spellings
			var es, what string
			switch rapid.IntRange(0, 3).Draw(rt, "edit") {
			case 0:
				es, what = strings.ToUpper(s), "upper case"
			case 1:
				p := rapid.IntRange(0, len(s)-1).Draw(rt, "mixPos")
				es, what = s[:p]+strings.ToUpper(s[p:p+1])+s[p+1:], "mixed case"
			case 2:
				es, what = "0x"+s, "0x prefix"
			default:
				es, what = rapid.String().Draw(rt, "arbitrary"), "arbitrary text"
			}
			if verifC48Canonical(c, "hex", conv, es, what) {
				c.Class("accepted:" + what)
				if what != "arbitrary text" {
					eb, _ := conv.Decode(es)
					if !bytes.Equal(eb, b) {
						c.Violation("C48:hex:spelling-other-bytes", "Decode(%q) = %x, original %x", es, eb, b)
					}
				}
			} else {
				c.Class("rejected:" + what)
			}
			c.NonTrivial(s)
		})
}

// exhaustive: every one-character substitution (all 32 alphabet characters and all other printable ASCII,
// at every position) of a few fixed 32-byte addresses is rejected.
func TestVerifC48_SubstitutionExhaustive(t *testing.T) {
	p := kit.NewPlain(t, "C48", "every position x every printable ASCII replacement of 3 fixed erd1 addresses (length 32) is rejected by Decode")
	defer p.Done()
	conv, err := pubkeyConverter.NewBech32PubkeyConverter(32)
	if err != nil {
		t.Fatalf("fixture: %v", err)
	}
	for k, fill := range []byte{0x00, 0xff, 0x5a} {
		b := bytes.Repeat([]byte{fill}, 32)
		b[31] = byte(k)
		s := conv.Encode(b)
		for pos := 0; pos < len(s); pos++ {
			for ch := 33; ch <= 126; ch++ {
				if byte(ch) == s[pos] {
					continue
				}
				cs := s[:pos] + string([]byte{byte(ch)}) + s[pos+1:]
				p.Eval(1)
				p.NonTrivialN(uint64(k)<<32 | uint64(pos)<<8 | uint64(ch))
				if got, derr := conv.Decode(cs); derr == nil {
					p.Violation("C48:bech32:accepted-one-char-substitution", "Decode(%q) accepted (-> %x); original %q", cs, got, s)
				}
			}
		}
	}
	p.Exhaustive()
}

func TestVerifC48_Regress(t *testing.T) {
	kit.Silence()
	// health of the harness' own BIP-173 code: the well-known P2WPKH test vector (witness version 0 + 20-byte program)
	// (the 20-byte program 751e76e8199196d454941c45d1b3a323f1433bd6 preceded by the 5-bit witness version 0 = one more 'q')
	prog := []byte{0x75, 0x1e, 0x76, 0xe8, 0x19, 0x91, 0x96, 0xd4, 0x54, 0x94, 0x1c, 0x45, 0xd1, 0xb3, 0xa3, 0x23, 0xf1, 0x43, 0x3b, 0xd6}
	if hrp, _, err := bech32.Decode("bc1qw508d6qejxtdg4y5r3zarvary0c5xw7kv8f3t4"); err != nil || hrp != "bc" {
		t.Fatalf("fixture: reference library rejects the BIP-173 vector: %v", err)
	}
	own := verifC48OwnBech32("erd", prog)
	ref, _ := verifC48Bech32Text("erd", prog)
	if own != ref {
		t.Fatalf("fixture: own BIP-173 encoder %q differs from the library %q", own, ref)
	}
	conv, _ := pubkeyConverter.NewBech32PubkeyConverter(32)
	// the address used throughout the repository's tests
	const addr = "erd1qyu5wthldzr8wx5c9ucg8kjagg0jfs53s8nr3zpz3hypefsdd8ssycr6th"
	b, err := conv.Decode(addr)
	if err != nil || len(b) != 32 {
		kit.FailPlain(t, "C48", "C48:bech32:roundtrip-rejected", "Decode(%s) = %x, %v", addr, b, err)
	}
	if conv.Encode(b) != addr {
		kit.FailPlain(t, "C48", "C48:bech32:roundtrip-differs", "Encode(Decode(%s)) = %s", addr, conv.Encode(b))
	}
	for _, bad := range []string{
		"erd1qyu5wthldzr8wx5c9ucg8kjagg0jfs53s8nr3zpz3hypefsdd8ssycr6tj", // checksum
		"xrd1qyu5wthldzr8wx5c9ucg8kjagg0jfs53s8nr3zpz3hypefsdd8ssycr6th", // prefix, checksum not adapted
		"erd1qyu5wthldzr8wx5c9ucg8kjagg0jfs53s8nr3zpz3hypefsdd8ssycr6tH", // mixed case
		"", "erd1", "erd1qqqqqq",
	} {
		if got, derr := conv.Decode(bad); derr == nil {
			kit.FailPlain(t, "C48", "C48:bech32:accepted-noncanonical", "Decode(%q) accepted -> %x", bad, got)
		}
	}
}

// FuzzVerifC48_Decode: arbitrary text into both converters (native coverage-guided fuzzing, thorough tier).
func FuzzVerifC48_Decode(f *testing.F) {
	kit.Silence()
	b32, _ := pubkeyConverter.NewBech32PubkeyConverter(32)
	b20, _ := pubkeyConverter.NewBech32PubkeyConverter(20)
	h32, _ := pubkeyConverter.NewHexPubkeyConverter(32)
	h2, _ := pubkeyConverter.NewHexPubkeyConverter(2)
	type named struct {
		name string
		c    core.PubkeyConverter
	}
	convs := []named{{"bech32", b32}, {"bech32", b20}, {"hex", h32}, {"hex", h2}}
	f.Add("erd1qyu5wthldzr8wx5c9ucg8kjagg0jfs53s8nr3zpz3hypefsdd8ssycr6th")
	f.Add("ERD1QYU5WTHLDZR8WX5C9UCG8KJAGG0JFS53S8NR3ZPZ3HYPEFSDD8SSYCR6TH")
	f.Add(b20.Encode(make([]byte, 20)))
	f.Add("0139472eff6886771a982f3083da5d421f24c29181e63888228dc81ca60d69e1")
	f.Add("ABcd")
	f.Add("bc1qw508d6qejxtdg4y5r3zarvary0c5xw7kv8f3t4")
	f.Add("")
	f.Fuzz(func(t *testing.T, s string) {
		for _, nc := range convs {
			b, err := nc.c.Decode(s)
			if err != nil {
				continue
			}
			if len(b) != nc.c.Len() {
				kit.FailPlain(t, "C48", "C48:"+nc.name+":accepted-wrong-length", "Decode(%q) -> %d bytes, configured %d", s, len(b), nc.c.Len())
			}
			if enc := nc.c.Encode(b); enc != strings.ToLower(s) {
				kit.FailPlain(t, "C48", "C48:"+nc.name+":accepted-noncanonical", "Decode(%q) accepted as %x whose encoding is %q", s, b, enc)
			}
			b2, err2 := nc.c.Decode(nc.c.Encode(b))
			if err2 != nil || !bytes.Equal(b, b2) {
				kit.FailPlain(t, "C48", "C48:"+nc.name+":roundtrip-differs", "Decode(Encode(%x)) = %x, %v", b, b2, err2)
			}
		}
	})
}
