package resolvers_test

import (
	"fmt"
	"strings"
	"sync"
	"testing"
	"time"

	"github.com/ElrondNetwork/elrond-go/core"
	"github.com/ElrondNetwork/elrond-go/core/throttler"
	"github.com/ElrondNetwork/elrond-go/data/batch"
	"github.com/ElrondNetwork/elrond-go/dataRetriever"
	"github.com/ElrondNetwork/elrond-go/dataRetriever/mock"
	"github.com/ElrondNetwork/elrond-go/dataRetriever/resolvers"
	"github.com/ElrondNetwork/elrond-go/testscommon"
	kit "github.com/ElrondNetwork/elrond-go/verifkit"
	"pgregory.net/rapid"
)

// C43 at component level, resolver side (anchor dataRetriever/resolvers/messageProcessor.go): a real TxResolver with a
// REAL NumGoRoutinesThrottler serves requests; every request is handled by the goroutine of the p2p layer that calls
// ProcessReceivedMessage. The Send stub (the slow peer) blocks on a per-request gate and counts the Send calls that
// are in progress at the same time: sending the response is part of the task the throttler admitted, so that count
// must never exceed max. Requests are started one at a time (the next one only after the previous one is blocked in
// Send or has returned), so the check-then-act window of the known finding is not exercised.

const verifC43ResWait = 60 * time.Second

type verifC43Req struct {
	id      int
	chunks  int // number of Send calls a complete service of this request needs
	gate    chan struct{}
	entered chan struct{}
	done    chan error
	sends   int // Send calls entered
	passed  int // gate tokens handed out
	ret     bool
	err     error
}

type verifC43ResHarness struct {
	mu       sync.Mutex
	reqs     map[string]*verifC43Req
	inflight int
	worst    int
}

func (h *verifC43ResHarness) waitEvent(r *verifC43Req) string {
	select {
	case <-r.entered:
		return "entered"
	case err := <-r.done:
		r.ret, r.err = true, err
		return "returned"
	case <-time.After(verifC43ResWait):
		return "timeout"
	}
}

func TestVerifC43_TxResolver(t *testing.T) {
	marsh := &mock.MarshalizerMock{}
	kit.Run(t, "C43", kit.Budget{Quick: 300, Thorough: 4000},
		"real TxResolver with a real NumGoRoutinesThrottler (max 1..3), requests by hash (1 Send) and by hash array whose response is packed in 1-3 chunks (1-3 Sends), each request served by its own caller goroutine and started only when the previous one is blocked in Send or has returned; drawn steps: new request / let one blocked Send of a drawn request finish; oracle = Send calls in progress at the same time <= max; non-trivial = a request was refused as busy while another one was blocked and a multi-chunk response was sent; distinct by step trace",
		func(rt *rapid.T, c *kit.Case) {
			max := rapid.IntRange(1, 3).Draw(rt, "max")
			th, err := throttler.NewNumGoRoutinesThrottler(int32(max))
			if err != nil {
				rt.Fatalf("fixture: %v", err)
			}
			h := &verifC43ResHarness{reqs: map[string]*verifC43Req{}}
			arg := resolvers.ArgTxResolver{
				SenderResolver: &mock.TopicResolverSenderStub{
					SendCalled: func(buff []byte, peer core.PeerID) error {
						h.mu.Lock()
						r := h.reqs[string(peer)]
						h.inflight++
						if h.inflight > h.worst {
							h.worst = h.inflight
						}
						if r != nil {
							r.sends++
						}
						h.mu.Unlock()
						if r != nil {
							r.entered <- struct{}{}
							<-r.gate
						}
						h.mu.Lock()
						h.inflight--
						h.mu.Unlock()
						return nil
					},
				},
				TxPool: &testscommon.ShardedDataStub{
					SearchFirstDataCalled: func(key []byte) (interface{}, bool) {
						return &batch.Batch{Data: [][]byte{key}}, true
					},
				},
				TxStorage:   &testscommon.StorerStub{},
				Marshalizer: marsh,
				DataPacker: &mock.DataPackerStub{
					PackDataInChunksCalled: func(data [][]byte, _ int) ([][]byte, error) {
						// the number of chunks is encoded in the number of requested hashes
						chunks := make([][]byte, len(data))
						for i := range chunks {
							chunks[i] = []byte(fmt.Sprintf("chunk %d", i))
						}
						return chunks, nil
					},
				},
				AntifloodHandler: &mock.P2PAntifloodHandlerStub{},
				Throttler:        th,
			}
			res, err := resolvers.NewTxResolver(arg)
			if err != nil {
				rt.Fatalf("fixture: %v", err)
			}
			var all []*verifC43Req
			var trace []string
			sawBusy, sawMulti := false, false
			check := func() {
				h.mu.Lock()
				worst, now := h.worst, h.inflight
				h.mu.Unlock()
				if worst > max {
					c.Violation("C43:resolver:more-than-max-sending", "%d Send calls of admitted requests were in progress at the same time, throttler max %d (now %d); steps: %s", worst, max, now, strings.Join(trace, " "))
				}
			}
			// settle waits until request r is blocked in a Send again, or has returned with all its Sends done
			settle := func(r *verifC43Req) {
				for {
					h.mu.Lock()
					blocked := r.sends > r.passed
					complete := r.ret && (r.err != nil || r.sends >= r.chunks)
					h.mu.Unlock()
					if blocked || complete {
						return
					}
					if h.waitEvent(r) == "timeout" {
						rt.Fatalf("fixture: request %d neither blocked in Send nor returned within %v; steps %v", r.id, verifC43ResWait, trace)
					}
				}
			}
			release := func(r *verifC43Req) {
				h.mu.Lock()
				can := r.sends > r.passed
				if can {
					r.passed++
				}
				h.mu.Unlock()
				if can {
					r.gate <- struct{}{}
				}
			}
			defer func() {
				// let everything finish
				for _, r := range all {
					for i := 0; i < 8; i++ {
						h.mu.Lock()
						fin := r.ret && (r.err != nil || r.sends >= r.chunks) && r.sends == r.passed
						h.mu.Unlock()
						if fin {
							break
						}
						release(r)
						if !fin {
							select {
							case <-r.entered:
							case e := <-r.done:
								r.ret, r.err = true, e
							case <-time.After(2 * time.Second):
							}
						}
					}
				}
			}()
			steps := rapid.IntRange(1, 25).Draw(rt, "steps")
			for s := 0; s < steps; s++ {
				if len(all) == 0 || rapid.Bool().Draw(rt, "newRequest") {
					chunks := 1
					byArray := rapid.Bool().Draw(rt, "hashArray")
					if byArray {
						chunks = rapid.IntRange(1, 3).Draw(rt, "chunks")
					}
					r := &verifC43Req{id: len(all), chunks: chunks, gate: make(chan struct{}), entered: make(chan struct{}, 8), done: make(chan error, 1)}
					pid := core.PeerID(fmt.Sprintf("requester-%d", r.id))
					h.mu.Lock()
					h.reqs[string(pid)] = r
					h.mu.Unlock()
					all = append(all, r)
					rd := &dataRetriever.RequestData{Type: dataRetriever.HashType, Value: []byte("hash")}
					if byArray {
						hashes := make([][]byte, chunks)
						for i := range hashes {
							hashes[i] = []byte(fmt.Sprintf("hash-%d", i))
						}
						buff, _ := marsh.Marshal(&batch.Batch{Data: hashes})
						rd = &dataRetriever.RequestData{Type: dataRetriever.HashArrayType, Value: buff}
					}
					data, errM := marsh.Marshal(rd)
					if errM != nil {
						rt.Fatalf("fixture: %v", errM)
					}
					msg := &mock.P2PMessageMock{DataField: data, PeerField: pid}
					go func() { r.done <- res.ProcessReceivedMessage(msg, "connected") }()
					settle(r)
					outcome := "serving"
					if r.ret && r.err != nil {
						outcome = "refused"
						if strings.Contains(r.err.Error(), dataRetriever.ErrSystemBusy.Error()) {
							outcome = "busy"
							sawBusy = true
						}
					}
					if chunks > 1 && outcome == "serving" {
						sawMulti = true
					}
					trace = append(trace, fmt.Sprintf("request%d(chunks=%d)=%s", r.id, chunks, outcome))
				} else {
					r := all[rapid.IntRange(0, len(all)-1).Draw(rt, "request")]
					h.mu.Lock()
					blocked := r.sends > r.passed
					h.mu.Unlock()
					if !blocked {
						continue
					}
					release(r)
					settle(r)
					trace = append(trace, fmt.Sprintf("sendDone(request%d)", r.id))
				}
				check()
			}
			check()
			if sawBusy && sawMulti {
				c.NonTrivial(fmt.Sprint(max, trace))
				c.Sample("max=%d: %s", max, strings.Join(trace, " "))
			}
		})
}
