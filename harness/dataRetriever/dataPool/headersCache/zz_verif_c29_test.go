package headersCache

import (
	"bytes"
	"fmt"
	"strings"
	"sync"
	"sync/atomic"
	"testing"

	"github.com/ElrondNetwork/elrond-go/config"
	"github.com/ElrondNetwork/elrond-go/core"
	"github.com/ElrondNetwork/elrond-go/data"
	"github.com/ElrondNetwork/elrond-go/data/block"
	kit "github.com/ElrondNetwork/elrond-go/verifkit"
	"pgregory.net/rapid"
)

// C29: Headers pool indexes stay consistent and are race-free.
//
// (a) TestVerifC29_Seq: sequential programs; after every step the three internal indexes (by hash, by
//     shard+nonce, per-shard counter) are compared with each other, and (audit steps) the same through the
//     public API over the whole universe of hashes. Which header an eviction removes depends on wall-clock
//     timestamps; nothing asserted depends on it.
// (b) TestVerifC29_Race (built with -race): 2-6 goroutines run generated programs on one pool behind a
//     barrier; oracle = race detector + the structural invariants at quiescence.

type verifC29Hdr struct {
	hash  []byte
	hdr   data.HeaderHandler
	shard uint32
	nonce uint64
}

var verifC29Shards = []uint32{0, 1, core.MetachainShardId}

const verifC29NeverSeenShard = uint32(7)

func verifC29Universe() []*verifC29Hdr {
	var u []*verifC29Hdr
	for _, s := range verifC29Shards {
		for n := uint64(0); n <= 6; n++ {
			for v := 0; v < 3; v++ {
				h := &verifC29Hdr{hash: []byte(fmt.Sprintf("h-%d-%d-%d", s, n, v)), shard: s, nonce: n}
				if s == core.MetachainShardId {
					h.hdr = &block.MetaBlock{Nonce: n, Round: uint64(v)}
				} else {
					h.hdr = &block.Header{Nonce: n, ShardID: s, Round: uint64(v)}
				}
				u = append(u, h)
			}
		}
	}
	return u
}

// verifC29Structure compares the internal indexes with each other (no timestamps are touched).
// It returns a description of the first inconsistency, or "".
func verifC29Structure(pool *headersPool) (key string, msg string) {
	pool.mutHeadersPool.Lock()
	defer pool.mutHeadersPool.Unlock()
	cache := pool.cache

	listed := map[string]headerInfo{}
	perShard := map[uint32]int{}
	for shard, byNonce := range cache.headersNonceCache {
		for nonce, list := range byNonce {
			if len(list.items) == 0 {
				return "C29:nonce-listed-without-header", fmt.Sprintf("shard %d: the shard/nonce index has an entry for nonce %d that holds no header", shard, nonce)
			}
			for _, it := range list.items {
				if _, dup := listed[string(it.headerHash)]; dup {
					return "C29:hash-listed-twice", fmt.Sprintf("hash %s is listed twice in the shard/nonce index", it.headerHash)
				}
				listed[string(it.headerHash)] = headerInfo{headerNonce: nonce, headerShardId: shard}
				perShard[shard]++
				if it.header == nil || it.header.GetShardID() != shard || it.header.GetNonce() != nonce {
					return "C29:listed-under-wrong-shard-nonce", fmt.Sprintf("hash %s is listed under shard %d nonce %d but its header says otherwise", it.headerHash, shard, nonce)
				}
			}
		}
	}
	for hash, info := range cache.headersByHash {
		li, ok := listed[hash]
		if !ok {
			return "C29:by-hash-but-not-listed", fmt.Sprintf("hash %s is in the by-hash index (shard %d nonce %d) but in no shard/nonce list", hash, info.headerShardId, info.headerNonce)
		}
		if li != info {
			return "C29:by-hash-points-elsewhere", fmt.Sprintf("hash %s: by-hash index says shard %d nonce %d, listed under shard %d nonce %d", hash, info.headerShardId, info.headerNonce, li.headerShardId, li.headerNonce)
		}
	}
	for hash, li := range listed {
		if _, ok := cache.headersByHash[hash]; !ok {
			return "C29:listed-but-not-by-hash", fmt.Sprintf("hash %s is listed under shard %d nonce %d but missing in the by-hash index", hash, li.headerShardId, li.headerNonce)
		}
	}
	for shard, n := range perShard {
		if int(cache.headersCounter.getCount(shard)) != n {
			return "C29:counter-differs", fmt.Sprintf("shard %d: counter %d, %d headers stored", shard, cache.headersCounter.getCount(shard), n)
		}
	}
	for shard, cnt := range cache.headersCounter {
		if int(cnt) != perShard[shard] {
			return "C29:counter-differs", fmt.Sprintf("shard %d: counter %d, %d headers stored", shard, cnt, perShard[shard])
		}
	}
	return "", ""
}

// verifC29Audit checks the same equivalences through the public API over the whole universe.
func verifC29Audit(pool *headersPool, universe []*verifC29Hdr) (key string, msg string, present map[string]bool) {
	present = map[string]bool{}
	foundPerShard := map[uint32]int{}
	for _, h := range universe {
		got, err := pool.GetHeaderByHash(h.hash)
		byHash := err == nil
		if byHash && (got == nil || got.GetShardID() != h.shard || got.GetNonce() != h.nonce || got.GetRound() != h.hdr.GetRound()) {
			return "C29:wrong-header-by-hash", fmt.Sprintf("GetHeaderByHash(%s) returns a different header", h.hash), nil
		}
		hdrs, hashes, err2 := pool.GetHeadersByNonceAndShardId(h.nonce, h.shard)
		listed := false
		if err2 == nil {
			if len(hdrs) != len(hashes) || len(hdrs) == 0 {
				return "C29:lists-differ-in-length", fmt.Sprintf("GetHeadersByNonceAndShardId(%d,%d) returns %d headers and %d hashes", h.nonce, h.shard, len(hdrs), len(hashes)), nil
			}
			for i, x := range hashes {
				if bytes.Equal(x, h.hash) {
					listed = true
					if hdrs[i].GetShardID() != h.shard || hdrs[i].GetNonce() != h.nonce {
						return "C29:listed-under-wrong-shard-nonce", fmt.Sprintf("hash %s listed with a header of another shard/nonce", h.hash), nil
					}
				}
			}
		}
		if byHash != listed {
			return "C29:by-hash-vs-listed", fmt.Sprintf("hash %s: found by hash = %v, listed under shard %d nonce %d = %v", h.hash, byHash, h.shard, h.nonce, listed), nil
		}
		if byHash {
			present[string(h.hash)] = true
			foundPerShard[h.shard]++
		}
	}
	total := 0
	for _, s := range append([]uint32{verifC29NeverSeenShard}, verifC29Shards...) {
		sum := 0
		seenNonce := map[uint64]bool{}
		for _, n := range pool.Nonces(s) {
			if seenNonce[n] {
				return "C29:nonces-differ", fmt.Sprintf("shard %d: Nonces() lists nonce %d twice", s, n), nil
			}
			seenNonce[n] = true
			hdrs, hashes, err := pool.GetHeadersByNonceAndShardId(n, s)
			if err != nil || len(hdrs) == 0 {
				return "C29:nonce-listed-without-header", fmt.Sprintf("shard %d: Nonces() lists nonce %d but no header is found under that shard and nonce (err=%v)", s, n, err), nil
			}
			for _, h := range hashes {
				if _, errHash := pool.GetHeaderByHash(h); errHash != nil {
					return "C29:by-hash-vs-listed", fmt.Sprintf("shard %d nonce %d lists hash %s which is not found by hash", s, n, h), nil
				}
			}
			sum += len(hdrs)
		}
		num := pool.GetNumHeaders(s)
		if num != sum || num != foundPerShard[s] {
			return "C29:num-headers-differs", fmt.Sprintf("shard %d: GetNumHeaders=%d, sum over Nonces()=%d, universe hashes found by hash=%d", s, num, sum, foundPerShard[s]), nil
		}
		total += num
	}
	if pool.Len() != total {
		return "C29:len-differs", fmt.Sprintf("Len()=%d, sum of GetNumHeaders=%d", pool.Len(), total), nil
	}
	return "", "", present
}

func verifC29Config(rt *rapid.T) config.HeadersPoolConfig {
	max := rapid.IntRange(2, 8).Draw(rt, "maxHeadersPerShard")
	return config.HeadersPoolConfig{
		MaxHeadersPerShard:            max,
		NumElementsToRemoveOnEviction: rapid.IntRange(1, max).Draw(rt, "numToRemove"),
	}
}

func TestVerifC29_Seq(t *testing.T) {
	universe := verifC29Universe()
	kit.Run(t, "C29", kit.Budget{Quick: 2500, Thorough: 25000, Steps: 40},
		"pool with MaxHeadersPerShard 2..8, NumElementsToRemoveOnEviction 1..max; programs over shards {0,1,meta, never-seen 7}, nonces 0..6, 3 header variants per (shard,nonce): AddHeader, RemoveHeaderByHash, RemoveHeaderByNonceAndShardId, GetHeaderByHash, GetHeadersByNonceAndShardId, Nonces, GetNumHeaders, Clear; after every step the internal indexes (by hash, by shard+nonce, counters) must agree; audit steps compare the public lookups over all 63 hashes; non-trivial = a step that evicts; distinct by config+program",
		func(rt *rapid.T, c *kit.Case) {
			cfg := verifC29Config(rt)
			pool, err := NewHeadersPool(cfg)
			if err != nil {
				rt.Fatalf("fixture: %v", err)
			}
			var log []string
			logf := func(format string, args ...interface{}) {
				if len(log) < 300 {
					log = append(log, fmt.Sprintf(format, args...))
				}
			}
			describe := func() string {
				return fmt.Sprintf("config{Max:%d Remove:%d} program: %s", cfg.MaxHeadersPerShard, cfg.NumElementsToRemoveOnEviction, strings.Join(log, "; "))
			}
			model := map[string]*verifC29Hdr{} // added and neither removed nor seen evicted
			evictions := 0
			hdrGen := rapid.SampledFrom(universe)
			shardGen := rapid.SampledFrom([]uint32{0, 1, core.MetachainShardId, verifC29NeverSeenShard})
			nonceGen := rapid.Uint64Range(0, 8) // 7, 8: nonces no header has (the sync code asks the pool for nonces that have not arrived yet)

			// reconcile after each step, white box: headers of the model that vanished were evicted
			reconcile := func() {
				pool.mutHeadersPool.RLock()
				byHash := make(map[string]headerInfo, len(pool.cache.headersByHash))
				for k, v := range pool.cache.headersByHash {
					byHash[k] = v
				}
				pool.mutHeadersPool.RUnlock()
				for k := range byHash {
					if _, ok := model[k]; !ok {
						c.Violation("C29:removed-header-still-stored", "hash %s is stored although it was removed / never added; %s", k, describe())
					}
				}
				for k := range model {
					if _, ok := byHash[k]; !ok {
						delete(model, k)
						evictions++
						c.Class("evicted")
					}
				}
			}

			add := func(t *rapid.T) {
				h := hdrGen.Draw(t, "hdr")
				c.NoPanic("C29:panic", func() { pool.AddHeader(h.hash, h.hdr) })
				logf("Add(%s)", h.hash)
				if _, ok := model[string(h.hash)]; ok {
					c.Class("add-duplicate")
				}
				model[string(h.hash)] = h
				before := evictions
				reconcile()
				if _, ok := model[string(h.hash)]; !ok {
					c.Violation("C29:added-header-not-stored", "header %s is not stored right after AddHeader; %s", h.hash, describe())
				}
				if evictions > before {
					c.Class("add-evicts")
				}
			}
			rt.Repeat(map[string]func(*rapid.T){
				"Add":  add,
				"Add2": add,
				"Add3": add,
				"AddInvalid": func(t *rapid.T) {
					if rapid.IntRange(0, 3).Draw(t, "really") != 0 {
						t.Skip()
					}
					c.NoPanic("C29:panic", func() {
						pool.AddHeader(nil, universe[0].hdr)
						pool.AddHeader([]byte("x"), nil)
					})
					logf("AddInvalid")
					c.Class("rejected")
				},
				"RemoveByHash": func(t *rapid.T) {
					h := hdrGen.Draw(t, "hdr")
					c.NoPanic("C29:panic", func() { pool.RemoveHeaderByHash(h.hash) })
					logf("RemoveByHash(%s)", h.hash)
					delete(model, string(h.hash))
				},
				"RemoveByNonce": func(t *rapid.T) {
					s, n := shardGen.Draw(t, "shard"), nonceGen.Draw(t, "nonce")
					c.NoPanic("C29:panic", func() { pool.RemoveHeaderByNonceAndShardId(n, s) })
					logf("RemoveByNonce(%d,%d)", n, s)
					for k, h := range model {
						if h.shard == s && h.nonce == n {
							delete(model, k)
						}
					}
				},
				"GetByHash": func(t *rapid.T) {
					h := hdrGen.Draw(t, "hdr")
					var err error
					c.NoPanic("C29:panic", func() { _, err = pool.GetHeaderByHash(h.hash) })
					logf("GetByHash(%s)", h.hash)
					_, inModel := model[string(h.hash)]
					if (err == nil) != inModel {
						c.Violation("C29:get-by-hash-vs-stored", "GetHeaderByHash(%s) err=%v, stored=%v; %s", h.hash, err, inModel, describe())
					}
				},
				"GetByNonce": func(t *rapid.T) {
					s, n := shardGen.Draw(t, "shard"), nonceGen.Draw(t, "nonce")
					var hashes [][]byte
					var err error
					c.NoPanic("C29:panic", func() { _, hashes, err = pool.GetHeadersByNonceAndShardId(n, s) })
					logf("GetByNonce(%d,%d)", n, s)
					want := 0
					for _, h := range model {
						if h.shard == s && h.nonce == n {
							want++
						}
					}
					if len(hashes) != want || (err == nil) != (want > 0) {
						c.Violation("C29:get-by-nonce-vs-stored", "GetHeadersByNonceAndShardId(%d,%d) returns %d hashes err=%v, %d stored; %s", n, s, len(hashes), err, want, describe())
					}
				},
				"NoncesAndNum": func(t *rapid.T) {
					s := shardGen.Draw(t, "shard")
					var nonces []uint64
					var num int
					c.NoPanic("C29:panic", func() { nonces = pool.Nonces(s); num = pool.GetNumHeaders(s) })
					logf("Nonces(%d)", s)
					wantNonces := map[uint64]bool{}
					want := 0
					for _, h := range model {
						if h.shard == s {
							wantNonces[h.nonce] = true
							want++
						}
					}
					if num != want {
						c.Violation("C29:num-headers-differs", "GetNumHeaders(%d)=%d, %d stored; %s", s, num, want, describe())
					}
					got := map[uint64]bool{}
					for _, n := range nonces {
						got[n] = true
					}
					for n := range wantNonces {
						if !got[n] {
							c.Violation("C29:nonces-differ", "Nonces(%d)=%v misses nonce %d; %s", s, nonces, n, describe())
						}
					}
					for n := range got {
						if !wantNonces[n] {
							c.Violation("C29:nonce-listed-without-header", "Nonces(%d)=%v lists nonce %d under which no header is stored; %s", s, nonces, n, describe())
						}
					}
				},
				"Audit": func(t *rapid.T) {
					key, msg, present := verifC29Audit(pool, universe)
					logf("Audit")
					if key != "" {
						c.Violation(key, "%s; %s", msg, describe())
					}
					if len(present) != len(model) {
						c.Violation("C29:get-by-hash-vs-stored", "%d universe hashes found by hash, %d stored; %s", len(present), len(model), describe())
					}
				},
				"Clear": func(t *rapid.T) {
					if rapid.IntRange(0, 5).Draw(t, "really") != 0 {
						t.Skip()
					}
					c.NoPanic("C29:panic", func() { pool.Clear() })
					logf("Clear")
					model = map[string]*verifC29Hdr{}
					c.Class("clear")
				},
				"": func(t *rapid.T) {
					if key, msg := verifC29Structure(pool); key != "" {
						c.Violation(key, "%s; %s", msg, describe())
					}
					reconcile()
				},
			})
			if key, msg, _ := verifC29Audit(pool, universe); key != "" {
				c.Violation(key, "%s (final audit); %s", msg, describe())
			}
			if evictions > 0 {
				c.NonTrivial(describe())
				c.Sample("%s", describe())
			}
		})
}

// ---- (b) concurrent programs

type verifC29Op struct {
	kind  int
	hdr   *verifC29Hdr
	shard uint32
	nonce uint64
}

const (
	verifC29OpAdd = iota
	verifC29OpRemoveByHash
	verifC29OpRemoveByNonce
	verifC29OpGetByHash
	verifC29OpGetByNonce
	verifC29OpNonces
	verifC29OpNumHeaders
	verifC29OpLen
	verifC29OpClear
	verifC29OpRegister
	verifC29NumOps
)

func verifC29GenOps(rt *rapid.T, universe []*verifC29Hdr, readerOnly bool) []verifC29Op {
	n := rapid.IntRange(5, 40).Draw(rt, "numOps")
	ops := make([]verifC29Op, n)
	for i := range ops {
		var kind int
		if readerOnly {
			// goroutines that only use the operations documented as read-only
			kind = rapid.SampledFrom([]int{verifC29OpNonces, verifC29OpNonces, verifC29OpNumHeaders, verifC29OpLen}).Draw(rt, "kind")
		} else {
			kind = rapid.SampledFrom([]int{
				verifC29OpAdd, verifC29OpAdd, verifC29OpAdd, verifC29OpRemoveByHash, verifC29OpRemoveByNonce,
				verifC29OpGetByHash, verifC29OpGetByNonce, verifC29OpNonces, verifC29OpNonces, verifC29OpNumHeaders,
				verifC29OpLen, verifC29OpClear, verifC29OpRegister,
			}).Draw(rt, "kind")
			if kind == verifC29OpClear && rapid.IntRange(0, 3).Draw(rt, "reallyClear") != 0 {
				kind = verifC29OpNonces
			}
		}
		op := verifC29Op{kind: kind, hdr: rapid.SampledFrom(universe).Draw(rt, "hdr"), nonce: rapid.Uint64Range(0, 8).Draw(rt, "nonce")}
		// shard for lookups: known shards, the never-seen shard 7, and other shards never added (8..40)
		switch rapid.IntRange(0, 3).Draw(rt, "shardKind") {
		case 0:
			op.shard = rapid.SampledFrom(verifC29Shards).Draw(rt, "shard")
		case 1:
			op.shard = verifC29NeverSeenShard
		default:
			op.shard = uint32(rapid.IntRange(8, 40).Draw(rt, "unseenShard"))
		}
		ops[i] = op
	}
	return ops
}

func TestVerifC29_Race(t *testing.T) {
	universe := verifC29Universe()
	var handlerCalls int64
	kit.Run(t, "C29", kit.Budget{Quick: 250, Thorough: 2500},
		"2-6 goroutines, each a generated program of 5-40 pool operations (same vocabulary plus Len, RegisterHandler; lookups also on shards never added: 7 and 8..40), started behind a barrier on one pool; at least one goroutine uses only the read-only operations Nonces/GetNumHeaders/Len; oracle = race detector + structural invariants and public audit at quiescence; non-trivial = two goroutines call Nonces on a shard never added",
		func(rt *rapid.T, c *kit.Case) {
			cfg := verifC29Config(rt)
			pool, err := NewHeadersPool(cfg)
			if err != nil {
				rt.Fatalf("fixture: %v", err)
			}
			ng := rapid.IntRange(2, 6).Draw(rt, "goroutines")
			nReaders := rapid.IntRange(1, ng).Draw(rt, "readerOnlyGoroutines")
			progs := make([][]verifC29Op, ng)
			unseenNonces := 0
			for g := range progs {
				progs[g] = verifC29GenOps(rt, universe, g < nReaders)
				for _, op := range progs[g] {
					if op.kind == verifC29OpNonces && op.shard >= verifC29NeverSeenShard && op.shard != core.MetachainShardId {
						unseenNonces++
						break
					}
				}
			}
			var start, done sync.WaitGroup
			start.Add(1)
			panics := make([]interface{}, ng)
			for g := range progs {
				done.Add(1)
				go func(g int) {
					defer done.Done()
					defer func() { panics[g] = recover() }()
					start.Wait()
					for _, op := range progs[g] {
						switch op.kind {
						case verifC29OpAdd:
							pool.AddHeader(op.hdr.hash, op.hdr.hdr)
						case verifC29OpRemoveByHash:
							pool.RemoveHeaderByHash(op.hdr.hash)
						case verifC29OpRemoveByNonce:
							pool.RemoveHeaderByNonceAndShardId(op.nonce, op.shard)
						case verifC29OpGetByHash:
							_, _ = pool.GetHeaderByHash(op.hdr.hash)
						case verifC29OpGetByNonce:
							_, _, _ = pool.GetHeadersByNonceAndShardId(op.nonce, op.shard)
						case verifC29OpNonces:
							_ = pool.Nonces(op.shard)
						case verifC29OpNumHeaders:
							_ = pool.GetNumHeaders(op.shard)
						case verifC29OpLen:
							_ = pool.Len() + pool.MaxSize()
						case verifC29OpClear:
							pool.Clear()
						case verifC29OpRegister:
							pool.RegisterHandler(func(_ data.HeaderHandler, _ []byte) { atomic.AddInt64(&handlerCalls, 1) })
						}
					}
				}(g)
			}
			start.Done()
			done.Wait()
			for g, p := range panics {
				if p != nil {
					c.Violation("C29:panic-concurrent", "goroutine %d panicked: %v", g, p)
				}
			}
			if key, msg := verifC29Structure(pool); key != "" {
				c.Violation(key, "%s (after %d concurrent programs)", msg, ng)
			}
			if key, msg, _ := verifC29Audit(pool, universe); key != "" {
				c.Violation(key, "%s (after %d concurrent programs)", msg, ng)
			}
			if unseenNonces >= 2 {
				c.NonTrivial(fmt.Sprint(cfg, verifC29ProgsKey(progs)))
			}
		})
}

func verifC29ProgsKey(progs [][]verifC29Op) string {
	var sb strings.Builder
	for _, p := range progs {
		sb.WriteString("|")
		for _, op := range p {
			fmt.Fprintf(&sb, "%d.%s.%d.%d,", op.kind, op.hdr.hash, op.shard, op.nonce)
		}
	}
	return sb.String()
}

// regression: sequential facts around the defect site (Nonces of a shard never added) and removal by hash.
func TestVerifC29_Regress(t *testing.T) {
	kit.Silence()
	pool, err := NewHeadersPool(config.HeadersPoolConfig{MaxHeadersPerShard: 2, NumElementsToRemoveOnEviction: 1})
	if err != nil {
		t.Fatalf("fixture: %v", err)
	}
	if n := pool.Nonces(verifC29NeverSeenShard); len(n) != 0 {
		kit.FailPlain(t, "C29", "C29:nonces-differ", "Nonces of a shard never added = %v", n)
	}
	u := verifC29Universe()
	for _, h := range u[:9] {
		pool.AddHeader(h.hash, h.hdr)
	}
	pool.RemoveHeaderByHash(u[8].hash)
	// lookups / removals of nonces the (known) shard does not hold must leave no trace in the shard/nonce index
	_, _, _ = pool.GetHeadersByNonceAndShardId(8, 0)
	pool.RemoveHeaderByNonceAndShardId(7, 0)
	for _, n := range pool.Nonces(0) {
		if hdrs, _, errGet := pool.GetHeadersByNonceAndShardId(n, 0); errGet != nil || len(hdrs) == 0 {
			kit.FailPlain(t, "C29", "C29:nonce-listed-without-header", "Nonces(0) lists nonce %d which holds no header", n)
		}
	}
	if key, msg := verifC29Structure(pool); key != "" {
		kit.FailPlain(t, "C29", key, "%s", msg)
	}
	if key, msg, _ := verifC29Audit(pool, u); key != "" {
		kit.FailPlain(t, "C29", key, "%s", msg)
	}
}
