package shardedData

import (
	"fmt"
	"strings"
	"testing"

	"github.com/ElrondNetwork/elrond-go/data/transaction"
	"github.com/ElrondNetwork/elrond-go/storage/storageUnit"
	kit "github.com/ElrondNetwork/elrond-go/verifkit"
	"pgregory.net/rapid"
)

// C27 at the ShardedData level (the pool the block processor uses for unsigned / reward transactions; one
// ImmunityCache per cacheID "sender_receiver").
//
// Real caller of the immunization: process/track/miniBlockTrack.receivedMiniBlock calls
// ImmunizeSetOfDataAgainstEviction(miniBlock.TxHashes, "sender_receiver") when a cross-shard miniblock arrives,
// i.e. usually BEFORE its transactions are in the pool and possibly before anything was ever added for that
// cacheID. immunitycache.ImmunizeKeys keeps such keys as "future" immune keys. Hence the oracle: a key that was
// immunized (before or after being added) and not removed / cleared / merged away by the program is never evicted.
//
// The model never predicts which non-immune item is evicted nor whether an item is admitted: after every step
// every key of the universe is looked up in every store and the model is reconciled.

type verifC27SItem struct {
	val    *transaction.Transaction
	immune bool
	future bool // became immune through an immunization that preceded its insertion
}

type verifC27SStore struct {
	items      map[string]*verifC27SItem
	immune     map[string]bool // keys immunized and not removed since (present or future)
	everImmune map[string]bool // upper bound of the cache's immune-key counter (removals are ignored)
	preStore   map[string]bool // keys immunized while the store did not exist yet
}

func verifC27SNewStore() *verifC27SStore {
	return &verifC27SStore{items: map[string]*verifC27SItem{}, immune: map[string]bool{}, everImmune: map[string]bool{}, preStore: map[string]bool{}}
}

func TestVerifC27_ShardedData(t *testing.T) {
	kit.Run(t, "C27", kit.Budget{Quick: 2500, Thorough: 25000, Steps: 60},
		"NewShardedData with Capacity 4..12, Shards 1..3, SizeInBytes large or ~10 per item; 2-3 cacheIDs (\"0\", \"1_0\", \"2_0\"), keys shared between cacheIDs; programs of AddData (size 1..50), ImmunizeSetOfDataAgainstEviction (1-3 present or future keys, also as the very first operation of a cacheID), RemoveData, RemoveSetOfDataFromPool, RemoveDataFromAllShards, SearchFirstData, ClearShardStore, Clear, MergeShardStores; after every step every key is looked up in every store: immune keys must still be there, nothing invented, values unchanged, removed keys gone; non-trivial = a key immunized before it was added survives an eviction in its store; distinct by config+program",
		func(rt *rapid.T, c *kit.Case) {
			capacity := rapid.IntRange(4, 12).Draw(rt, "capacity")
			shards := rapid.IntRange(1, 3).Draw(rt, "shards")
			sizeInBytes := uint64(1_000_000)
			if rapid.IntRange(0, 3).Draw(rt, "smallBytes") == 0 {
				sizeInBytes = uint64(capacity * rapid.IntRange(5, 20).Draw(rt, "bytesPerItem"))
			}
			cfg := storageUnit.CacheConfig{Capacity: uint32(capacity), SizeInBytes: sizeInBytes, Shards: uint32(shards)}
			sd, err := NewShardedData("verif", cfg)
			if err != nil {
				rt.Fatalf("fixture: %v", err)
			}
			var lastAdded string
			sd.RegisterOnAdded(func(key []byte, _ interface{}) { lastAdded = string(key) })

			ids := []string{"0", "1_0", "2_0"}[:rapid.IntRange(2, 3).Draw(rt, "numCacheIDs")]
			nKeys := capacity + rapid.IntRange(2, 8).Draw(rt, "extraKeys")
			universe := make([]string, nKeys)
			for i := range universe {
				universe[i] = fmt.Sprintf("tx%02d", i)
			}
			idGen := rapid.SampledFrom(ids)
			keyGen := rapid.SampledFrom(universe)
			model := map[string]*verifC27SStore{}
			for _, id := range ids {
				model[id] = verifC27SNewStore()
			}
			var log []string
			logf := func(format string, args ...interface{}) {
				if len(log) < 400 {
					log = append(log, fmt.Sprintf(format, args...))
				}
			}
			describe := func() string {
				return fmt.Sprintf("config{Capacity:%d Shards:%d SizeInBytes:%d} program: %s", capacity, shards, sizeInBytes, strings.Join(log, "; "))
			}
			nonTrivial := false
			seq := uint64(0)

			// reconcile compares every store with the model; adopt lists keys that the last operation (a merge)
			// may legitimately have brought into a store, with the values they may carry.
			reconcile := func(adopt map[string]map[string]*transaction.Transaction) {
				for _, id := range ids {
					m := model[id]
					cache := sd.ShardDataStore(id)
					evicted := false
					found := 0
					for _, k := range universe {
						var v interface{}
						ok := false
						if cache != nil {
							v, ok = cache.Peek([]byte(k))
						}
						it, inModel := m.items[k]
						switch {
						case inModel && !ok:
							if it.immune {
								c.Violation("C27:sharded-immune-item-evicted", "cacheID %s: key %s was immunized (before being added: %v) and not removed, but it is no longer in the pool; %s", id, k, it.future, describe())
							}
							delete(m.items, k)
							evicted = true
							c.Class("evicted")
						case !inModel && ok:
							want, may := adopt[id][k]
							if !may || v != interface{}(want) {
								c.Violation("C27:sharded-phantom-item", "cacheID %s: key %s is in the pool but was never added / was removed; %s", id, k, describe())
							}
							m.items[k] = &verifC27SItem{val: want, immune: m.immune[k], future: m.immune[k]}
							found++
						case inModel && ok:
							if moved, may := adopt[id][k]; may && v == interface{}(moved) && v != interface{}(it.val) {
								// merge: the old entry was evicted while the source items were added, then the source's entry came in
								it.val, it.immune, it.future = moved, m.immune[k], m.immune[k]
							}
							if v != interface{}(it.val) {
								c.Violation("C27:sharded-wrong-value", "cacheID %s: key %s holds another value than the one added; %s", id, k, describe())
							}
							found++
						}
					}
					if cache != nil && cache.Len() != found {
						c.Violation("C27:sharded-count-mismatch", "cacheID %s: Len()=%d, %d keys of the universe present; %s", id, cache.Len(), found, describe())
					}
					if evicted {
						for _, it := range m.items {
							if it.future {
								nonTrivial = true
							}
						}
					}
				}
			}

			add := func(t *rapid.T) {
				id, k := idGen.Draw(t, "cacheID"), keyGen.Draw(t, "key")
				size := rapid.IntRange(1, 50).Draw(t, "size")
				seq++
				val := &transaction.Transaction{Nonce: seq}
				lastAdded = ""
				c.NoPanic("C27:sharded-panic", func() { sd.AddData([]byte(k), val, size, id) })
				added := lastAdded == k
				logf("AddData(%s,%d,%s)=%v", k, size, id, added)
				m := model[id]
				if added {
					if got, ok := sd.ShardDataStore(id).Peek([]byte(k)); !ok || got != interface{}(val) {
						c.Violation("C27:sharded-added-not-retrievable", "AddData(%s,%s) notified the handlers but the key is not in the store; %s", k, id, describe())
					}
					m.items[k] = &verifC27SItem{val: val, immune: m.immune[k], future: m.immune[k]}
					if m.immune[k] {
						c.Class("future-immune-key-added")
						if m.preStore[k] {
							c.Class("future-immune-key-added-immunized-before-store-existed")
						}
					}
				}
				reconcile(nil)
			}

			rt.Repeat(map[string]func(*rapid.T){
				"AddData":  add,
				"AddData2": add,
				"AddData3": add,
				"AddData4": add,
				"Immunize": func(t *rapid.T) {
					id := idGen.Draw(t, "cacheID")
					keys := rapid.SliceOfNDistinct(keyGen, 1, 3, func(s string) string { return s }).Draw(t, "keys")
					m := model[id]
					// the cache refuses a whole call when immune keys + len(keys) would exceed Capacity and reports nothing
					// at this level: only calls that fit even under an upper bound of the immune-key counter are issued
					if len(m.everImmune)+len(keys) > capacity {
						c.Class("immunize-skipped-immune-capacity")
						t.Skip()
					}
					storeExists := sd.ShardDataStore(id) != nil
					bkeys := make([][]byte, len(keys))
					for i, k := range keys {
						bkeys[i] = []byte(k)
					}
					c.NoPanic("C27:sharded-panic", func() { sd.ImmunizeSetOfDataAgainstEviction(bkeys, id) })
					logf("Immunize(%s;%s)", strings.Join(keys, ","), id)
					if !storeExists {
						c.Class("immunize-before-store-exists")
					}
					for _, k := range keys {
						m.everImmune[k] = true
						m.immune[k] = true
						if it, ok := m.items[k]; ok {
							it.immune = true
							c.Class("immunize-present-key")
						} else {
							c.Class("immunize-future-key")
							if !storeExists {
								m.preStore[k] = true
							}
						}
					}
					reconcile(nil)
				},
				"RemoveData": func(t *rapid.T) {
					id, k := idGen.Draw(t, "cacheID"), keyGen.Draw(t, "key")
					c.NoPanic("C27:sharded-panic", func() { sd.RemoveData([]byte(k), id) })
					logf("RemoveData(%s,%s)", k, id)
					m := model[id]
					delete(m.items, k)
					if sd.ShardDataStore(id) != nil {
						// the immunity marker goes with the removal only if the store exists (otherwise the call is a no-op)
						delete(m.immune, k)
						delete(m.preStore, k)
					}
					reconcile(nil)
				},
				"RemoveSet": func(t *rapid.T) {
					id := idGen.Draw(t, "cacheID")
					keys := rapid.SliceOfN(keyGen, 1, 4).Draw(t, "keys")
					bkeys := make([][]byte, len(keys))
					for i, k := range keys {
						bkeys[i] = []byte(k)
					}
					exists := sd.ShardDataStore(id) != nil
					c.NoPanic("C27:sharded-panic", func() { sd.RemoveSetOfDataFromPool(bkeys, id) })
					logf("RemoveSet(%s;%s)", strings.Join(keys, ","), id)
					m := model[id]
					for _, k := range keys {
						delete(m.items, k)
						if exists {
							delete(m.immune, k)
							delete(m.preStore, k)
						}
					}
					reconcile(nil)
				},
				"RemoveFromAll": func(t *rapid.T) {
					k := keyGen.Draw(t, "key")
					c.NoPanic("C27:sharded-panic", func() { sd.RemoveDataFromAllShards([]byte(k)) })
					logf("RemoveFromAll(%s)", k)
					for _, id := range ids {
						delete(model[id].items, k)
						if sd.ShardDataStore(id) != nil {
							delete(model[id].immune, k)
							delete(model[id].preStore, k)
						}
					}
					reconcile(nil)
				},
				"SearchFirst": func(t *rapid.T) {
					k := keyGen.Draw(t, "key")
					var v interface{}
					var ok bool
					c.NoPanic("C27:sharded-panic", func() { v, ok = sd.SearchFirstData([]byte(k)) })
					logf("SearchFirst(%s)", k)
					want := false
					match := false
					for _, id := range ids {
						if it, in := model[id].items[k]; in {
							want = true
							if v == interface{}(it.val) {
								match = true
							}
						}
					}
					if ok != want || (ok && !match) {
						c.Violation("C27:sharded-search-first", "SearchFirstData(%s) found=%v, stored somewhere=%v, value of one of the stores=%v; %s", k, ok, want, match, describe())
					}
				},
				"ClearShardStore": func(t *rapid.T) {
					if rapid.IntRange(0, 3).Draw(t, "really") != 0 {
						t.Skip()
					}
					id := idGen.Draw(t, "cacheID")
					exists := sd.ShardDataStore(id) != nil
					c.NoPanic("C27:sharded-panic", func() { sd.ClearShardStore(id) })
					logf("ClearShardStore(%s)", id)
					if exists {
						model[id] = verifC27SNewStore()
					}
					c.Class("clear-shard-store")
					reconcile(nil)
				},
				"Clear": func(t *rapid.T) {
					if rapid.IntRange(0, 5).Draw(t, "really") != 0 {
						t.Skip()
					}
					c.NoPanic("C27:sharded-panic", func() { sd.Clear() })
					logf("Clear")
					for _, id := range ids {
						model[id] = verifC27SNewStore()
					}
					c.Class("clear")
					reconcile(nil)
				},
				"Merge": func(t *rapid.T) {
					if rapid.IntRange(0, 3).Draw(t, "really") != 0 {
						t.Skip()
					}
					src, dst := idGen.Draw(t, "src"), idGen.Draw(t, "dst")
					if src == dst {
						t.Skip()
					}
					c.NoPanic("C27:sharded-panic", func() { sd.MergeShardStores(src, dst) })
					logf("Merge(%s->%s)", src, dst)
					// everything of src may have moved to dst (subject to admission/eviction there); src is dropped with its markers
					adopt := map[string]map[string]*transaction.Transaction{dst: {}}
					for k, it := range model[src].items {
						adopt[dst][k] = it.val
					}
					model[src] = verifC27SNewStore()
					c.Class("merge")
					reconcile(adopt)
				},
				"": func(t *rapid.T) {},
			})
			if nonTrivial {
				c.NonTrivial(describe())
				c.Sample("%s", describe())
			}
		})
}

// regression: the ordering used by the block tracker - the hashes of a miniblock are immunized for a cacheID
// before anything was added for it, then the transactions arrive, then the store overflows.
func TestVerifC27_ShardedDataRegress(t *testing.T) {
	kit.Silence()
	sd, err := NewShardedData("verif", storageUnit.CacheConfig{Capacity: 10, SizeInBytes: 1_000_000, Shards: 1})
	if err != nil {
		t.Fatalf("fixture: %v", err)
	}
	sd.ImmunizeSetOfDataAgainstEviction([][]byte{[]byte("a"), []byte("b")}, "1_0")
	sd.AddData([]byte("a"), &transaction.Transaction{Nonce: 1}, 1, "1_0")
	sd.AddData([]byte("b"), &transaction.Transaction{Nonce: 2}, 1, "1_0")
	for i := 0; i < 40; i++ {
		sd.AddData([]byte(fmt.Sprintf("other%d", i)), &transaction.Transaction{Nonce: uint64(10 + i)}, 1, "1_0")
	}
	for _, k := range []string{"a", "b"} {
		if _, ok := sd.SearchFirstData([]byte(k)); !ok {
			kit.FailPlain(t, "C27", "C27:sharded-immune-item-evicted", "key %s immunized before the first AddData of its cacheID was evicted", k)
		}
	}
}
