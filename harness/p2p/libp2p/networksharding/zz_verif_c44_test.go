package networksharding

import (
	"fmt"
	"sort"
	"strings"
	"testing"

	"github.com/ElrondNetwork/elrond-go/config"
	"github.com/ElrondNetwork/elrond-go/core"
	"github.com/ElrondNetwork/elrond-go/p2p/mock"
	"github.com/ElrondNetwork/elrond-go/testscommon/p2pmocks"
	kit "github.com/ElrondNetwork/elrond-go/verifkit"
	"github.com/libp2p/go-libp2p-core/peer"
	"pgregory.net/rapid"
)

// C44: Peer eviction keeps connections within quotas.
//
// Only exported API is used (NewListsSharder, SetSeeders, ComputeEvictionList); the file sits in the
// package because the package's own tests do.

const (
	verifC44IntraVal = iota
	verifC44CrossVal
	verifC44IntraObs
	verifC44CrossObs
	verifC44Seeder
	verifC44FullHist
	verifC44Unknown
	verifC44NumCat
)

var verifC44CatNames = []string{"intraValidators", "crossValidators", "intraObservers", "crossObservers", "seeders", "fullHistoryObservers", "unknown"}

type verifC44Peer struct {
	id        peer.ID
	info      core.P2PPeerInfo
	seeder    bool
	preferred bool
}

func (p *verifC44Peer) String() string {
	return fmt.Sprintf("%s{%s/%s shard %d seeder=%v preferred=%v}", p.id.Pretty()[38:], p.info.PeerType, p.info.PeerSubType, p.info.ShardID, p.seeder, p.preferred)
}

// verifC44MakeID builds a well-formed libp2p peer id (sha2-256 multihash, "Qm…", always 46 characters in
// text form) that is distinct for distinct (idx, salt).
func verifC44MakeID(idx int, salt []byte) peer.ID {
	b := make([]byte, 34)
	b[0], b[1] = 0x12, 0x20
	copy(b[2:], salt)
	b[32], b[33] = byte(idx>>8), byte(idx)
	return peer.ID(b)
}

// verifC44Category is the classification the sharder documents: preferred peers are outside all quotas;
// seeders form their own strict class whatever else they are; then unknown peers; then validators/observers
// by shard; intra-shard full-history observers have their own class when that class is configured (> 0).
func verifC44Category(p *verifC44Peer, selfShard uint32, maxFullHistory uint32) int {
	switch {
	case p.seeder:
		return verifC44Seeder
	case p.info.PeerType == core.UnknownPeer:
		return verifC44Unknown
	case p.info.ShardID != selfShard && p.info.PeerType == core.ValidatorPeer:
		return verifC44CrossVal
	case p.info.ShardID != selfShard:
		return verifC44CrossObs
	case p.info.PeerType == core.ValidatorPeer:
		return verifC44IntraVal
	case p.info.PeerSubType == core.FullHistoryObserver && maxFullHistory > 0:
		return verifC44FullHist
	default:
		return verifC44IntraObs
	}
}

type verifC44Scenario struct {
	cfg       config.ShardingConfig
	selfShard uint32
	self      peer.ID
	peers     []*verifC44Peer
}

func (s *verifC44Scenario) String() string {
	var sb strings.Builder
	fmt.Fprintf(&sb, "config %+v self shard %d; %d peers:", s.cfg, s.selfShard, len(s.peers))
	for _, p := range s.peers {
		sb.WriteString("\n  " + p.String())
	}
	return sb.String()
}

func verifC44Gen(rt *rapid.T) *verifC44Scenario {
	s := &verifC44Scenario{}
	maxOf := func(label string) uint32 {
		if rapid.IntRange(0, 2).Draw(rt, label+"Min") == 0 {
			return 1
		}
		return uint32(rapid.IntRange(1, 6).Draw(rt, label))
	}
	s.cfg.MaxIntraShardValidators = maxOf("maxIV")
	s.cfg.MaxCrossShardValidators = maxOf("maxCV")
	s.cfg.MaxIntraShardObservers = maxOf("maxIO")
	s.cfg.MaxCrossShardObservers = maxOf("maxCO")
	s.cfg.MaxSeeders = uint32(rapid.IntRange(0, 3).Draw(rt, "maxSeeders"))
	s.cfg.MaxFullHistoryObservers = uint32(rapid.SampledFrom([]int{0, 0, 1, 2, 3}).Draw(rt, "maxFH"))
	room := uint32(rapid.SampledFrom([]int{1, 1, 2, 5}).Draw(rt, "unknownRoom"))
	s.cfg.TargetPeerCount = s.cfg.MaxIntraShardValidators + s.cfg.MaxCrossShardValidators + s.cfg.MaxIntraShardObservers +
		s.cfg.MaxCrossShardObservers + s.cfg.MaxSeeders + s.cfg.MaxFullHistoryObservers + room

	shards := []uint32{0, 1, 2, core.MetachainShardId}
	s.selfShard = rapid.SampledFrom(shards).Draw(rt, "selfShard")
	salt := rapid.SliceOfN(rapid.Byte(), 30, 30).Draw(rt, "salt")
	s.self = verifC44MakeID(0xffff, salt)

	n := rapid.IntRange(0, 80).Draw(rt, "numPeers")
	// a per-case bias so that some lists are dominated by one or two classes
	bias := rapid.IntRange(0, 7).Draw(rt, "bias")
	prefPct := rapid.SampledFrom([]int{0, 10, 10, 30, 60}).Draw(rt, "prefPct")
	seedPct := rapid.SampledFrom([]int{0, 5, 15, 40}).Draw(rt, "seedPct")
	for i := 0; i < n; i++ {
		p := &verifC44Peer{id: verifC44MakeID(i, salt)}
		kind := rapid.IntRange(0, 6).Draw(rt, "kind")
		if bias < 7 && rapid.Bool().Draw(rt, "useBias") {
			kind = bias
		}
		switch kind {
		case 0:
			p.info.PeerType, p.info.ShardID = core.ValidatorPeer, s.selfShard
		case 1:
			p.info.PeerType = core.ValidatorPeer
		case 2:
			p.info.PeerType, p.info.ShardID = core.ObserverPeer, s.selfShard
		case 3:
			p.info.PeerType = core.ObserverPeer
		case 4:
			p.info.PeerType, p.info.ShardID, p.info.PeerSubType = core.ObserverPeer, s.selfShard, core.FullHistoryObserver
		case 5:
			p.info.PeerType, p.info.PeerSubType = core.ObserverPeer, core.FullHistoryObserver
		default:
			p.info.PeerType = core.UnknownPeer
		}
		if kind == 1 || kind == 3 || kind == 5 || kind == 6 {
			// another shard (for unknown peers the shard is meaningless; draw it anyway)
			o := rapid.SampledFrom(shards).Draw(rt, "otherShard")
			if o == s.selfShard && kind != 6 {
				o = shards[(verifC44IndexOfShard(shards, o)+1)%len(shards)]
			}
			p.info.ShardID = o
		}
		if kind == 0 && rapid.IntRange(0, 9).Draw(rt, "valSub") == 0 {
			p.info.PeerSubType = core.FullHistoryObserver // a validator advertising the full-history subtype stays a validator
		}
		p.seeder = rapid.IntRange(0, 99).Draw(rt, "seeder") < seedPct
		p.preferred = rapid.IntRange(0, 99).Draw(rt, "preferred") < prefPct
		s.peers = append(s.peers, p)
	}
	return s
}

func verifC44IndexOfShard(shards []uint32, v uint32) int {
	for i, s := range shards {
		if s == v {
			return i
		}
	}
	return 0
}

func verifC44Build(rt interface{ Fatalf(string, ...interface{}) }, s *verifC44Scenario) *listsSharder {
	byID := make(map[core.PeerID]*verifC44Peer, len(s.peers))
	var seederAddrs []string
	for i, p := range s.peers {
		byID[core.PeerID(p.id)] = p
		if p.seeder {
			seederAddrs = append(seederAddrs, fmt.Sprintf("/ip4/10.0.%d.%d/tcp/%d/p2p/%s", i/256, i%256, 10000+i, p.id.Pretty()))
		}
	}
	arg := ArgListsSharder{
		PeerResolver: &mock.PeerShardResolverStub{GetPeerInfoCalled: func(pid core.PeerID) core.P2PPeerInfo {
			if pid == core.PeerID(s.self) {
				return core.P2PPeerInfo{PeerType: core.ObserverPeer, ShardID: s.selfShard}
			}
			if p, ok := byID[pid]; ok {
				return p.info
			}
			return core.P2PPeerInfo{}
		}},
		SelfPeerId: s.self,
		PreferredPeersHolder: &p2pmocks.PeersHolderStub{ContainsCalled: func(pid core.PeerID) bool {
			p, ok := byID[pid]
			return ok && p.preferred
		}},
		P2pConfig: config.P2PConfig{Sharding: s.cfg},
	}
	ls, err := NewListsSharder(arg)
	if err != nil {
		rt.Fatalf("fixture: configuration built valid was rejected: %v (%+v)", err, s.cfg)
	}
	ls.SetSeeders(seederAddrs)
	return ls
}

// verifC44Judge evaluates the statement on an eviction list; it returns the violation class key and a
// description, or two empty strings.
func verifC44Judge(s *verifC44Scenario, evicted []peer.ID) (string, string) {
	byID := make(map[peer.ID]*verifC44Peer, len(s.peers))
	for _, p := range s.peers {
		byID[p.id] = p
	}
	seen := map[peer.ID]bool{}
	for _, e := range evicted {
		p, ok := byID[e]
		if !ok {
			return "C44:evicts-peer-not-in-list", fmt.Sprintf("eviction list contains %s which is not in the given list\n%s", e.Pretty(), s)
		}
		if seen[e] {
			return "C44:evicts-peer-twice", fmt.Sprintf("eviction list contains %s twice\n%s", p, s)
		}
		seen[e] = true
		if p.preferred {
			slug := "C44:evicts-preferred-peer"
			if p.seeder {
				slug = "C44:evicts-preferred-seeder"
			}
			return slug, fmt.Sprintf("preferred peer %s is proposed for eviction\n%s", p, s)
		}
	}
	var remaining [verifC44NumCat]int
	total := 0
	for _, p := range s.peers {
		if p.preferred || seen[p.id] {
			continue
		}
		remaining[verifC44Category(p, s.selfShard, s.cfg.MaxFullHistoryObservers)]++
		total++
	}
	cfg := s.cfg
	if remaining[verifC44Seeder] > int(cfg.MaxSeeders) {
		return "C44:exceeds-seeders", fmt.Sprintf("%d seeders remain, MaxSeeders %d\n%s", remaining[verifC44Seeder], cfg.MaxSeeders, s)
	}
	if remaining[verifC44FullHist] > int(cfg.MaxFullHistoryObservers) {
		return "C44:exceeds-full-history-observers", fmt.Sprintf("%d full-history observers remain, max %d\n%s", remaining[verifC44FullHist], cfg.MaxFullHistoryObservers, s)
	}
	// the documented cascade: a class may use what the classes before it left unused, so the limit of
	// the first k classes together is the sum of their maxima
	unknownRoom := int(cfg.TargetPeerCount - cfg.MaxIntraShardValidators - cfg.MaxCrossShardValidators - cfg.MaxIntraShardObservers -
		cfg.MaxCrossShardObservers - cfg.MaxSeeders - cfg.MaxFullHistoryObservers)
	order := []int{verifC44IntraVal, verifC44CrossVal, verifC44IntraObs, verifC44CrossObs, verifC44Unknown}
	limits := []int{int(cfg.MaxIntraShardValidators), int(cfg.MaxCrossShardValidators), int(cfg.MaxIntraShardObservers), int(cfg.MaxCrossShardObservers), unknownRoom}
	have, allowed := 0, 0
	for k, cat := range order {
		have += remaining[cat]
		allowed += limits[k]
		if have > allowed {
			return "C44:exceeds-" + verifC44CatNames[cat], fmt.Sprintf("%d connections remain in the classes up to %s, cumulative limit %d (remaining per class %v)\n%s", have, verifC44CatNames[cat], allowed, remaining, s)
		}
	}
	if total > int(cfg.TargetPeerCount) {
		return "C44:exceeds-target-peer-count", fmt.Sprintf("%d non-preferred connections remain, target peer count %d (remaining per class %v)\n%s", total, cfg.TargetPeerCount, remaining, s)
	}
	return "", ""
}

func verifC44Check(c *kit.Case, s *verifC44Scenario, evicted []peer.ID) {
	if key, msg := verifC44Judge(s, evicted); key != "" {
		c.Violation(key, "%s", msg)
	}
}

func verifC44Classify(c *kit.Case, s *verifC44Scenario) {
	var existing [verifC44NumCat]int
	pref, prefSeeders := 0, 0
	for _, p := range s.peers {
		if p.preferred {
			pref++
			if p.seeder {
				prefSeeders++
			}
			continue
		}
		existing[verifC44Category(p, s.selfShard, s.cfg.MaxFullHistoryObservers)]++
	}
	cfg := s.cfg
	limits := [verifC44NumCat]int{int(cfg.MaxIntraShardValidators), int(cfg.MaxCrossShardValidators), int(cfg.MaxIntraShardObservers), int(cfg.MaxCrossShardObservers), int(cfg.MaxSeeders), int(cfg.MaxFullHistoryObservers), 1}
	over := 0
	for k := 0; k < verifC44NumCat; k++ {
		if existing[k] > limits[k] {
			over++
		}
	}
	if pref > 0 {
		c.Class("has-preferred")
	}
	if prefSeeders > 0 {
		c.Class("has-preferred-seeder")
	}
	c.Class(fmt.Sprintf("classes-over-limit:%d", over))
	if over >= 2 && pref > 0 {
		keys := make([]string, 0, len(s.peers))
		for _, p := range s.peers {
			keys = append(keys, fmt.Sprintf("%d%d%d%v%v", p.info.PeerType, p.info.PeerSubType, p.info.ShardID, p.seeder, p.preferred))
		}
		sort.Strings(keys)
		c.NonTrivial(fmt.Sprintf("%+v|%d|%v", cfg, s.selfShard, keys))
		c.Sample("config %+v, existing per class %v, preferred %d (seeders among them %d)", cfg, existing, pref, prefSeeders)
	}
}

func TestVerifC44_EvictionWithinQuotas(t *testing.T) {
	kit.Run(t, "C44", kit.Budget{Quick: 5000, Thorough: 50000},
		"valid sharding config (every max 1..6, seeders 0..3, full-history 0..3, room for unknown 1..5), 0-80 distinct well-formed peer ids with type/subtype/shard/seeder/preferred flags in all combinations, per-case bias towards one class; oracle on ComputeEvictionList: subset, no duplicate, no preferred peer, remaining non-preferred connections within target, strict seeders and full-history limits, cumulative cascade limits; non-trivial = >=2 classes over their own limit and >=1 preferred peer; distinct by (config, multiset of peer attributes)",
		func(rt *rapid.T, c *kit.Case) {
			s := verifC44Gen(rt)
			ls := verifC44Build(rt, s)
			verifC44Classify(c, s)
			list := make([]peer.ID, 0, len(s.peers))
			for _, p := range s.peers {
				list = append(list, p.id)
			}
			// the order of the connection list is arbitrary
			if len(list) > 1 && rapid.Bool().Draw(rt, "rotate") {
				k := rapid.IntRange(1, len(list)-1).Draw(rt, "rotateBy")
				list = append(append([]peer.ID{}, list[k:]...), list[:k]...)
			}
			var evicted []peer.ID
			c.NoPanic("C44:panic", func() { evicted = ls.ComputeEvictionList(list) })
			verifC44Check(c, s, evicted)
			if len(evicted) > 0 {
				c.Class("evicts-some")
			}
		})
}

// small-scope exhaustive complement: every vector of 0..2 non-preferred peers per class (7 classes), with one
// optional extra preferred peer of each class, under two tight configurations.
func TestVerifC44_SmallScopeExhaustive(t *testing.T) {
	p := kit.NewPlain(t, "C44", "all 3^7 vectors of 0..2 non-preferred peers per class x (no preferred peer | one preferred peer of class k, k=0..6) x 2 tight configurations (all maxima 1, seeders 1, full-history 0/1, room 1); same oracle as the generated check")
	defer p.Done()
	salt := make([]byte, 30)
	selfShard := uint32(0)
	mk := func(idx int, cat int, preferred bool) *verifC44Peer {
		q := &verifC44Peer{id: verifC44MakeID(idx, salt), preferred: preferred}
		switch cat {
		case verifC44IntraVal:
			q.info = core.P2PPeerInfo{PeerType: core.ValidatorPeer, ShardID: selfShard}
		case verifC44CrossVal:
			q.info = core.P2PPeerInfo{PeerType: core.ValidatorPeer, ShardID: 1}
		case verifC44IntraObs:
			q.info = core.P2PPeerInfo{PeerType: core.ObserverPeer, ShardID: selfShard}
		case verifC44CrossObs:
			q.info = core.P2PPeerInfo{PeerType: core.ObserverPeer, ShardID: core.MetachainShardId}
		case verifC44Seeder:
			q.info = core.P2PPeerInfo{PeerType: core.ValidatorPeer, ShardID: selfShard}
			q.seeder = true
		case verifC44FullHist:
			q.info = core.P2PPeerInfo{PeerType: core.ObserverPeer, PeerSubType: core.FullHistoryObserver, ShardID: selfShard}
		default:
			q.info = core.P2PPeerInfo{PeerType: core.UnknownPeer}
		}
		return q
	}
	for _, fh := range []uint32{0, 1} {
		cfg := config.ShardingConfig{MaxIntraShardValidators: 1, MaxCrossShardValidators: 1, MaxIntraShardObservers: 1, MaxCrossShardObservers: 1,
			MaxSeeders: 1, MaxFullHistoryObservers: fh, TargetPeerCount: 4 + 1 + fh + 1}
		for v := 0; v < 2187; v++ {
			for pref := -1; pref < verifC44NumCat; pref++ {
				s := &verifC44Scenario{cfg: cfg, selfShard: selfShard, self: verifC44MakeID(0xffff, salt)}
				x := v
				idx := 0
				for cat := 0; cat < verifC44NumCat; cat++ {
					for k := 0; k < x%3; k++ {
						s.peers = append(s.peers, mk(idx, cat, false))
						idx++
					}
					x /= 3
				}
				if pref >= 0 {
					// the preferred peer goes first so that it would be the one kept/evicted by position, not by luck
					s.peers = append([]*verifC44Peer{mk(idx, pref, true)}, s.peers...)
				}
				ls := verifC44Build(t, s)
				list := make([]peer.ID, 0, len(s.peers))
				for _, q := range s.peers {
					list = append(list, q.id)
				}
				key, msg := verifC44Judge(s, ls.ComputeEvictionList(list))
				p.Eval(1)
				if len(s.peers) > int(cfg.TargetPeerCount) && pref >= 0 {
					p.NonTrivialN(uint64(fh)<<32 | uint64(v)<<4 | uint64(pref+1))
				}
				if key != "" {
					p.Violation(key, "%s", msg)
				}
			}
		}
	}
	p.Exhaustive()
}

// regression: the minimal counterexample of suspected defect 19 - a preferred peer that is also a seeder.
func TestVerifC44_Regress(t *testing.T) {
	kit.Silence()
	salt := make([]byte, 30)
	self := verifC44MakeID(0xffff, salt)
	pid := verifC44MakeID(1, salt)
	arg := ArgListsSharder{
		PeerResolver: &mock.PeerShardResolverStub{GetPeerInfoCalled: func(core.PeerID) core.P2PPeerInfo { return core.P2PPeerInfo{} }},
		SelfPeerId:   self,
		PreferredPeersHolder: &p2pmocks.PeersHolderStub{ContainsCalled: func(p core.PeerID) bool {
			return p == core.PeerID(pid)
		}},
		P2pConfig: config.P2PConfig{Sharding: config.ShardingConfig{TargetPeerCount: 5, MaxIntraShardValidators: 1, MaxCrossShardValidators: 1,
			MaxIntraShardObservers: 1, MaxCrossShardObservers: 1, MaxSeeders: 0}},
	}
	ls, err := NewListsSharder(arg)
	if err != nil {
		t.Fatalf("fixture: %v", err)
	}
	ls.SetSeeders([]string{"/ip4/127.0.0.1/tcp/10000/p2p/" + pid.Pretty()})
	for _, e := range ls.ComputeEvictionList([]peer.ID{pid}) {
		if e == pid {
			kit.FailPlain(t, "C44", "C44:evicts-preferred-seeder", "one connected peer that is preferred and a seeder, MaxSeeders 0: it is proposed for eviction")
		}
	}
}
