package libp2p

import (
	"testing"

	kit "github.com/ElrondNetwork/elrond-go/verifkit"
)

// C33 uses the network message size limit as its oracle bound (verifC33NetworkLimit in
// process/block/preprocess/zz_verif_c33_test.go). The variable is unexported; this test makes sure the
// constant in the harness cannot silently drift from the code.
func TestVerifC33_NetworkLimitConstant(t *testing.T) {
	p := kit.NewPlain(t, "C33", "p2p/libp2p.maxSendBuffSize equals the limit used by the C33 oracle (983040)")
	defer p.Done()
	p.Eval(1)
	const verifC33NetworkLimit = (1 << 20) - 64*1024
	if maxSendBuffSize != verifC33NetworkLimit {
		p.Violation("C33:network-limit-constant-drift", "p2p/libp2p.maxSendBuffSize = %d, the C33 oracle assumes %d", maxSendBuffSize, verifC33NetworkLimit)
	}
}
