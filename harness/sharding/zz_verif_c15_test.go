package sharding

// C15: Consensus groups are well-formed and reproducible.
//
// For any randomness, round, shard and epoch known to the nodes coordinator, the consensus group has exactly
// the configured size, distinct members, all from that shard's eligible list of that epoch, leader first;
// every node computes the same group, with or without the group cache, with rating based weights.

import (
	"encoding/binary"
	"fmt"
	"reflect"
	"sort"
	"strconv"
	"strings"
	"sync"
	"testing"

	"github.com/ElrondNetwork/elrond-go/core"
	kit "github.com/ElrondNetwork/elrond-go/verifkit"
	"pgregory.net/rapid"
)

// verifC15Naive is the reference sampler: sampling without replacement over the list expanded by weight.
// Draw i takes H(uint64be(i) || seed) as a big endian uint64 modulo the number of expanded entries that
// belong to validators not chosen yet, and walks the expanded list skipping entries of chosen validators.
func verifC15Naive(hash func([]byte) []byte, weights []uint32, seed []byte, g int) []int {
	expanded := make([]int, 0)
	for i, w := range weights {
		for j := uint32(0); j < w; j++ {
			expanded = append(expanded, i)
		}
	}
	chosen := make(map[int]bool)
	res := make([]int, 0, g)
	for i := 0; i < g; i++ {
		buf := make([]byte, 8, 8+len(seed))
		binary.BigEndian.PutUint64(buf, uint64(i))
		buf = append(buf, seed...)
		r := binary.BigEndian.Uint64(hash(buf)[:8])
		remaining := 0
		for _, e := range expanded {
			if !chosen[e] {
				remaining++
			}
		}
		if remaining == 0 {
			return nil
		}
		k := r % uint64(remaining)
		pick := -1
		for _, e := range expanded {
			if chosen[e] {
				continue
			}
			if k == 0 {
				pick = e
				break
			}
			k--
		}
		chosen[pick] = true
		res = append(res, pick)
	}
	return res
}

// verifC15Weights draws a weight (chances) vector of length n: heavily skewed shapes are frequent.
func verifC15Weights(rt *rapid.T, n int, maxW uint32, label string) []uint32 {
	w := make([]uint32, n)
	switch rapid.IntRange(0, 5).Draw(rt, label+"Shape") {
	case 0: // all equal
		v := rapid.Uint32Range(1, maxW).Draw(rt, label+"All")
		for i := range w {
			w[i] = v
		}
	case 1, 2: // one heavy validator, rest 1
		for i := range w {
			w[i] = 1
		}
		w[rapid.IntRange(0, n-1).Draw(rt, label+"Heavy")] = maxW
	case 3: // a few heavy ones, rest small
		for i := range w {
			if rapid.IntRange(0, 3).Draw(rt, label+"IsHeavy") == 0 {
				w[i] = rapid.Uint32Range(maxW/2, maxW).Draw(rt, label+"H")
			} else {
				w[i] = rapid.Uint32Range(0, 2).Draw(rt, label+"L") // 0 = below the minimum chance, gets clamped
			}
		}
	default:
		for i := range w {
			w[i] = rapid.Uint32Range(0, maxW).Draw(rt, label+"W")
		}
	}
	return w
}

func verifC15Randomness(rt *rapid.T, label string) []byte {
	switch rapid.IntRange(0, 3).Draw(rt, label+"Kind") {
	case 0: // looks like pieces of a cache key / of the "%d-%s" seed
		return []byte(rapid.StringOfN(rapid.RuneFrom([]rune("_-0123456789ab")), 1, 12, -1).Draw(rt, label))
	case 1:
		return rapid.SliceOfN(rapid.Byte(), 32, 32).Draw(rt, label)
	default:
		return rapid.SliceOfN(rapid.Byte(), 1, 48).Draw(rt, label)
	}
}

type verifC15Epoch struct {
	epoch    uint32
	eligible map[uint32][]verifSHBVal
	waiting  map[uint32][]verifSHBVal
}

func verifC15GroupSize(shard uint32, gS, gM int) int {
	if shard == core.MetachainShardId {
		return gM
	}
	return gS
}

func verifC15EffWeights(list []verifSHBVal, minChance uint32, rater bool) []uint32 {
	w := make([]uint32, len(list))
	for i, v := range list {
		if !rater {
			w[i] = 1
			continue
		}
		w[i] = v.Chances
		if w[i] < minChance {
			w[i] = minChance
		}
	}
	return w
}

func TestVerifC15_ConsensusGroup(t *testing.T) {
	kit.Run(t, "C15", kit.Budget{Quick: 3000, Thorough: 25000},
		"1-3 shards + meta, group sizes 1..7 (thorough sometimes to 21), eligible lists of g..g+12 validators with unique keys, chances 0..40 in skewed shapes, minimum chance 1/2/5, sha256 or blake2b, 1-2 configured epochs; four coordinators per case (plain/with rater x LRU cache of capacity 1/2/3/1000 / no-op cache, different own keys) plus a fifth with rater whose validators are rebuilt from the registry exported by another node (SerializableValidatorsToValidators, directly or through JSON; it knows the last epoch only) answer 2-8 queries drawn from small pools of randomness (1-48 bytes, some built from '_', '-' and digits) and rounds (boundary biased) so that repeats and near collisions of cache keys occur; every answer is checked for size, distinctness, membership, equality between cached (asked twice) and uncached node, and equality with the naive expanded-list sampler; groups handed out are read again at the end of the case; in 1/4 of the cases 4 goroutines x 6 overlapping calls (rounds 0..40, pool randomness) on one node, shard and epoch, each compared with the sampler; non-trivial = a query with g>=3, list longer than g and max weight >= 10x min weight on the rater variant; distinct by (weights, randomness, round)",
		func(rt *rapid.T, c *kit.Case) {
			nbShards := uint32(rapid.IntRange(1, 3).Draw(rt, "nbShards"))
			maxG := 7
			extra := 12
			if kit.Thorough() && rapid.IntRange(0, 9).Draw(rt, "big") == 0 {
				maxG = 21
				extra = 40
			}
			gS := rapid.IntRange(1, maxG).Draw(rt, "gShard")
			gM := rapid.IntRange(1, maxG).Draw(rt, "gMeta")
			hasher, refHash := verifSHBHasher(rapid.IntRange(0, 1).Draw(rt, "hasher"))
			keys := &verifSHBKeyGen{long: rapid.Bool().Draw(rt, "longKeys")}
			minChance := rapid.SampledFrom([]uint32{1, 1, 2, 5}).Draw(rt, "minChance")
			chance := &verifSHBChance{Table: []uint32{minChance}, Top: 10}
			e0 := rapid.SampledFrom([]uint32{0, 0, 1, 7}).Draw(rt, "epoch0")
			nEpochs := rapid.IntRange(1, 2).Draw(rt, "nEpochs")
			shards := verifSHBShardIDs(nbShards)

			var epochs []verifC15Epoch
			var pool []string // keys of the first epoch, partly reused in the second
			for e := 0; e < nEpochs; e++ {
				ep := verifC15Epoch{epoch: e0 + uint32(e), eligible: map[uint32][]verifSHBVal{}, waiting: map[uint32][]verifSHBVal{}}
				used := map[string]bool{}
				for _, s := range shards {
					g := verifC15GroupSize(s, gS, gM)
					n := g + rapid.IntRange(0, extra).Draw(rt, "extra")
					w := verifC15Weights(rt, n, 40, "w")
					list := make([]verifSHBVal, n)
					for i := range list {
						pk := ""
						if e > 0 && len(pool) > 0 && rapid.Bool().Draw(rt, "reuse") {
							cand := pool[rapid.IntRange(0, len(pool)-1).Draw(rt, "reuseIdx")]
							if !used[cand] {
								pk = cand
							}
						}
						if pk == "" {
							pk = keys.New()
						}
						used[pk] = true
						list[i] = verifSHBVal{PK: pk, Chances: w[i], Index: uint32(i)}
					}
					ep.eligible[s] = list
					nw := rapid.IntRange(0, 2).Draw(rt, "nWaiting")
					for i := 0; i < nw; i++ {
						ep.waiting[s] = append(ep.waiting[s], verifSHBVal{PK: keys.New(), Chances: 1, Index: uint32(i)})
					}
					if ep.waiting[s] == nil {
						ep.waiting[s] = []verifSHBVal{}
					}
				}
				if e == 0 {
					for k := range used {
						pool = append(pool, k)
					}
					// canonical order: map iteration must not influence draws
					sort.Strings(pool)
				}
				epochs = append(epochs, ep)
			}

			// four nodes: (plain | rater) x (cached | uncached); different own keys, one of them a validator
			cacheSize := rapid.SampledFrom([]int{1, 2, 3, 1000}).Draw(rt, "cacheSize")
			type node struct {
				name   string
				rater  bool
				cached bool
				co     *verifSHBCoord
				// the node holds only the configuration of bootEpoch
				onlyEpoch bool
			}
			nodes := []*node{
				{name: "plain/cached", cached: true},
				{name: "plain/uncached"},
				{name: "rater/cached", rater: true, cached: true},
				{name: "rater/uncached", rater: true},
			}
			selfKeys := []string{"observer-A", epochs[0].eligible[core.MetachainShardId][0].PK, "observer-C", epochs[0].eligible[0][0].PK, "observer-R"}
			for i, n := range nodes {
				cfg := verifSHBCoordCfg{
					NbShards: nbShards, ShardGroup: gS, MetaGroup: gM, Epoch: e0,
					Eligible: epochs[0].eligible, Waiting: epochs[0].waiting,
					SelfPK: selfKeys[i], Hasher: hasher,
				}
				if n.cached {
					cfg.CacheSize = cacheSize
				}
				if n.rater {
					cfg.Chance = chance
				}
				co, err := verifSHBNewCoord(cfg)
				if err != nil {
					rt.Fatalf("fixture: coordinator %s: %v", n.name, err)
				}
				if nEpochs == 2 {
					err = co.Base.setNodesPerShards(verifSHBBuildMap(epochs[1].eligible), verifSHBBuildMap(epochs[1].waiting), map[uint32][]Validator{}, epochs[1].epoch)
					if err != nil {
						rt.Fatalf("fixture: second epoch %s: %v", n.name, err)
					}
				}
				n.co = co
			}
			// a fifth node, bootstrapped from an epoch start: its validators are rebuilt from the registry another node
			// exports (factory.CreateNodesCoordinator: NodesCoordinatorRegistry -> SerializableValidatorsToValidators);
			// it knows only the epoch it started in
			bootEpoch := epochs[len(epochs)-1].epoch
			{
				viaJSON := rapid.Bool().Draw(rt, "registryViaJSON")
				el, wt, err := verifSHBFromRegistry(nodes[3].co, bootEpoch, viaJSON)
				if err != nil {
					rt.Fatalf("fixture: registry of epoch %d: %v", bootEpoch, err)
				}
				co, err := verifSHBNewCoord(verifSHBCoordCfg{
					NbShards: nbShards, ShardGroup: gS, MetaGroup: gM, Epoch: bootEpoch,
					EligibleBuilt: el, WaitingBuilt: wt, SelfPK: selfKeys[4], Hasher: hasher, Chance: chance,
				})
				if err != nil {
					rt.Fatalf("fixture: coordinator from registry: %v", err)
				}
				nodes = append(nodes, &node{name: "rater/from-registry", rater: true, co: co, onlyEpoch: true})
			}
			// groups handed out earlier, looked at again at the end of the case
			type held struct {
				desc  string
				group []Validator
				pks   []string
			}
			var earlier []held

			// query pools
			nRand := rapid.IntRange(1, 3).Draw(rt, "nRand")
			rands := make([][]byte, 0, nRand+2)
			for i := 0; i < nRand; i++ {
				rands = append(rands, verifC15Randomness(rt, "rand"))
			}
			nRound := rapid.IntRange(1, 3).Draw(rt, "nRound")
			rounds := make([]uint64, 0, nRound)
			for i := 0; i < nRound; i++ {
				rounds = append(rounds, verifSHBBoundaryU64(rt, "round"))
			}
			if rapid.Bool().Draw(rt, "nearCollision") {
				// "R_<round>" with another round: shifts the separators of the cache key
				rands = append(rands, []byte(fmt.Sprintf("%s_%d", rands[0], rounds[0])))
				rands = append(rands, []byte(fmt.Sprintf("%d-%s", rounds[0], rands[0])))
				// move leading digits of a round into the randomness: "R"+"12",345 against "R",12345
				d := strconv.FormatUint(rounds[0], 10)
				if len(d) >= 2 {
					k := rapid.IntRange(1, len(d)-1).Draw(rt, "splitAt")
					if rest, err := strconv.ParseUint(d[k:], 10, 64); err == nil && strconv.FormatUint(rest, 10) == d[k:] {
						rands = append(rands, []byte(string(rands[0])+d[:k]))
						rounds = append(rounds, rest)
					}
				}
			}

			nQueries := rapid.IntRange(2, 8).Draw(rt, "nQueries")
			for q := 0; q < nQueries; q++ {
				randomness := rands[rapid.IntRange(0, len(rands)-1).Draw(rt, "qRand")]
				round := rounds[rapid.IntRange(0, len(rounds)-1).Draw(rt, "qRound")]
				ep := epochs[rapid.IntRange(0, len(epochs)-1).Draw(rt, "qEpoch")]
				shard := shards[rapid.IntRange(0, len(shards)-1).Draw(rt, "qShard")]

				if rapid.IntRange(0, 7).Draw(rt, "bad") == 0 {
					verifC15BadQuery(rt, c, nodes[rapid.IntRange(0, 3).Draw(rt, "badNode")].co, randomness, round, shard, ep.epoch, nbShards, e0, uint32(nEpochs))
					continue
				}

				list := ep.eligible[shard]
				g := verifC15GroupSize(shard, gS, gM)
				seed := []byte(strconv.FormatUint(round, 10) + "-" + string(randomness))
				results := map[string][]string{}
				for _, n := range nodes {
					if n.onlyEpoch && ep.epoch != bootEpoch {
						continue
					}
					weights := verifC15EffWeights(list, minChance, n.rater)
					idx := verifC15Naive(refHash, weights, seed, g)
					want := make([]string, len(idx))
					for i, ix := range idx {
						want[i] = list[ix].PK
					}
					asks := 1
					if n.cached {
						asks = 2
					}
					for a := 0; a < asks; a++ {
						var got []Validator
						var err error
						c.NoPanic("C15:panic", func() {
							got, err = n.co.NC().ComputeConsensusGroup(randomness, round, shard, ep.epoch)
						})
						desc := fmt.Sprintf("node %s ask %d: randomness %q round %d shard %d epoch %d, g=%d, eligible %d, weights %v", n.name, a, randomness, round, shard, ep.epoch, g, len(list), weights)
						if err != nil {
							c.Violation("C15:error", "unexpected error %v (%s)", err, desc)
						}
						pks := verifSHBPubKeys(got)
						verifC15CheckGroup(c, pks, list, g, desc)
						if strings.Join(pks, "|") != strings.Join(want, "|") {
							c.Violation("C15:reference-differs", "group differs from the naive sampler: got indexes %v want %v (%s)", verifC15Indexes(pks, list), idx, desc)
						}
						if a == 1 && strings.Join(pks, "|") != strings.Join(results[n.name], "|") {
							c.Violation("C15:cache-repeat-differs", "second answer differs from the first (%s)", desc)
						}
						results[n.name] = pks
						earlier = append(earlier, held{desc: desc, group: got, pks: pks})
					}
					var maxW, minW uint32 = 0, ^uint32(0)
					for _, w := range weights {
						if w > maxW {
							maxW = w
						}
						if w < minW {
							minW = w
						}
					}
					if n.rater && n.cached && g >= 3 && len(list) > g && maxW >= 10*minW {
						c.NonTrivial(fmt.Sprint(weights, randomness, round))
						c.Sample("g=%d eligible=%d weights=%v randomness=%q round=%d -> indexes %v", g, len(list), weights, randomness, round, idx)
					}
				}
				if strings.Join(results["plain/cached"], "|") != strings.Join(results["plain/uncached"], "|") {
					c.Violation("C15:cache-differs", "plain nodes disagree: cached %v uncached %v (randomness %q round %d shard %d epoch %d)", verifSHBShortList(results["plain/cached"]), verifSHBShortList(results["plain/uncached"]), randomness, round, shard, ep.epoch)
				}
				if r, asked := results["rater/from-registry"]; asked && strings.Join(r, "|") != strings.Join(results["rater/uncached"], "|") {
					c.Violation("C15:registry-node-differs", "the node bootstrapped from the registry disagrees: %v, node that holds the original configuration: %v (randomness %q round %d shard %d epoch %d)", verifSHBShortList(r), verifSHBShortList(results["rater/uncached"]), randomness, round, shard, ep.epoch)
				}
				if strings.Join(results["rater/cached"], "|") != strings.Join(results["rater/uncached"], "|") {
					c.Violation("C15:cache-differs", "rater nodes disagree: cached %v uncached %v (randomness %q round %d shard %d epoch %d)", verifSHBShortList(results["rater/cached"]), verifSHBShortList(results["rater/uncached"]), randomness, round, shard, ep.epoch)
				}
				c.Class("query-ok")
				if nEpochs == 2 {
					c.Class("query-two-epochs")
				}
			}

			// overlapping calls: header interceptors verify several headers of one shard and epoch at the same time, so
			// ComputeConsensusGroup runs concurrently on one selector; every caller must get the group of its own inputs
			if rapid.IntRange(0, 3).Draw(rt, "concurrent") == 0 {
				shard := shards[rapid.IntRange(0, len(shards)-1).Draw(rt, "ccShard")]
				ep := epochs[len(epochs)-1]
				list := ep.eligible[shard]
				g := verifC15GroupSize(shard, gS, gM)
				n := nodes[rapid.IntRange(0, len(nodes)-1).Draw(rt, "ccNode")]
				const workers, perWorker = 4, 6
				type call struct {
					randomness []byte
					round      uint64
					got        []Validator
					err        error
					panicked   interface{}
				}
				calls := make([][]*call, workers)
				for w := range calls {
					for k := 0; k < perWorker; k++ {
						calls[w] = append(calls[w], &call{
							randomness: rands[rapid.IntRange(0, len(rands)-1).Draw(rt, "ccRand")],
							round:      rapid.Uint64Range(0, 40).Draw(rt, "ccRound"),
						})
					}
				}
				var start, done sync.WaitGroup
				start.Add(1)
				for w := range calls {
					done.Add(1)
					go func(mine []*call) {
						defer done.Done()
						start.Wait()
						for _, cl := range mine {
							func() {
								defer func() { cl.panicked = recover() }()
								cl.got, cl.err = n.co.NC().ComputeConsensusGroup(cl.randomness, cl.round, shard, ep.epoch)
							}()
						}
					}(calls[w])
				}
				start.Done()
				done.Wait()
				weights := verifC15EffWeights(list, minChance, n.rater)
				for w := range calls {
					for _, cl := range calls[w] {
						desc := fmt.Sprintf("node %s, %d goroutines x %d calls: randomness %q round %d shard %d epoch %d, g=%d, eligible %d, weights %v", n.name, workers, perWorker, cl.randomness, cl.round, shard, ep.epoch, g, len(list), weights)
						if cl.panicked != nil {
							c.Violation("C15:panic", "panic %v (%s)", cl.panicked, desc)
						}
						if cl.err != nil {
							c.Violation("C15:error", "unexpected error %v (%s)", cl.err, desc)
						}
						idx := verifC15Naive(refHash, weights, []byte(strconv.FormatUint(cl.round, 10)+"-"+string(cl.randomness)), g)
						pks := verifSHBPubKeys(cl.got)
						verifC15CheckGroup(c, pks, list, g, desc)
						if fmt.Sprint(verifC15Indexes(pks, list)) != fmt.Sprint(idx) {
							c.Violation("C15:concurrent-reference-differs", "group computed while other calls were running differs from the naive sampler: got indexes %v want %v (%s)", verifC15Indexes(pks, list), idx, desc)
						}
					}
				}
				c.Class("concurrent-calls")
			}

			// what earlier callers were given must not have changed under their hands
			for _, h := range earlier {
				if now := verifSHBPubKeys(h.group); strings.Join(now, "|") != strings.Join(h.pks, "|") {
					c.Violation("C15:earlier-group-changed", "a group handed out earlier reads %v now, was %v (%s)", verifSHBShortList(now), verifSHBShortList(h.pks), h.desc)
				}
			}
		})
}

func verifC15Indexes(pks []string, list []verifSHBVal) []int {
	res := make([]int, len(pks))
	for i, pk := range pks {
		res[i] = -1
		for j, v := range list {
			if v.PK == pk {
				res[i] = j
			}
		}
	}
	return res
}

func verifC15CheckGroup(c *kit.Case, pks []string, list []verifSHBVal, g int, desc string) {
	if len(pks) != g {
		c.Violation("C15:size", "group has %d members, configured size %d (%s)", len(pks), g, desc)
	}
	seen := map[string]bool{}
	for i, pk := range pks {
		if seen[pk] {
			c.Violation("C15:duplicate-member", "member %d (%s) occurs twice, indexes %v (%s)", i, verifSHBShort(pk), verifC15Indexes(pks, list), desc)
		}
		seen[pk] = true
		found := false
		for _, v := range list {
			if v.PK == pk {
				found = true
				break
			}
		}
		if !found {
			c.Violation("C15:not-eligible", "member %d (%s) is not in the eligible list of the shard and epoch (%s)", i, verifSHBShort(pk), desc)
		}
	}
}

// verifC15BadQuery: unknown epoch, invalid shard or empty randomness must give an error, not a panic and not a group.
func verifC15BadQuery(rt *rapid.T, c *kit.Case, co *verifSHBCoord, randomness []byte, round uint64, shard uint32, epoch uint32, nbShards uint32, e0 uint32, nEpochs uint32) {
	kind := rapid.IntRange(0, 2).Draw(rt, "badKind")
	key := ""
	switch kind {
	case 0:
		c.Class("query-unknown-epoch")
		key = "C15:unknown-epoch-no-error"
		epoch = e0 + nEpochs + uint32(rapid.IntRange(0, 2).Draw(rt, "badEpochUp"))
		if e0 > 0 && rapid.Bool().Draw(rt, "badEpochDown") {
			epoch = e0 - 1
		}
	case 1:
		c.Class("query-invalid-shard")
		key = "C15:invalid-shard-no-error"
		shard = rapid.SampledFrom([]uint32{nbShards, nbShards + 1, core.MetachainShardId - 1, core.AllShardId}).Draw(rt, "badShard")
		if shard == core.MetachainShardId {
			shard = nbShards
		}
	default:
		c.Class("query-empty-randomness")
		key = "C15:empty-randomness-no-error"
		randomness = []byte{}
		if rapid.Bool().Draw(rt, "nilRand") {
			randomness = nil
		}
	}
	var got []Validator
	var err error
	c.NoPanic("C15:panic", func() { got, err = co.NC().ComputeConsensusGroup(randomness, round, shard, epoch) })
	if err == nil || len(got) != 0 {
		c.Violation(key, "expected an error and no group, got %d members, err=%v (randomness %q round %d shard %d epoch %d)", len(got), err, randomness, round, shard, epoch)
	}
}

// verifC15Query is one remembered ComputeConsensusGroup question (asked again after later epoch start blocks).
type verifC15Query struct {
	randomness []byte
	round      uint64
	shard      uint32
	epoch      uint32
}

// verifC15CfgIdentity identifies the eligible map object a coordinator currently holds for an epoch (0 = no
// configuration). Every accepted epoch start block installs a freshly made map, a refused one leaves the
// configuration untouched, so an unchanged identity after EpochStartPrepare means "block refused". Used only to
// classify cases, never as an oracle.
func verifC15CfgIdentity(co *verifSHBCoord, epoch uint32) uintptr {
	co.Base.mutNodesConfig.RLock()
	defer co.Base.mutNodesConfig.RUnlock()
	nc, ok := co.Base.nodesConfig[epoch]
	if !ok || nc == nil {
		return 0
	}
	nc.mutNodesMaps.RLock()
	defer nc.mutNodesMaps.RUnlock()
	if nc.eligibleMap == nil {
		return 0
	}
	return reflect.ValueOf(nc.eligibleMap).Pointer()
}

// Reproducibility across an epoch change: two nodes (LRU cache / no cache, different own keys) process the
// same epoch start blocks through EpochStartPrepare / EpochStartAction with the production shuffler; groups for
// the new and for the still stored previous epochs must agree between the nodes and with the naive sampler.
//
// An epoch can be prepared more than once before it is committed: a shard node calls EpochStartPrepare for every
// valid epoch start metablock it observes whose epoch is not final yet (shardchain trigger, updateTriggerFromMeta ->
// checkIfTriggerCanBeActivated -> NotifyAllPrepare, on every received metablock), so competing epoch start blocks of
// the same epoch (fork / rollback of the epoch start block on the metachain) are prepared one after the other, each
// from the configuration of the current epoch, and only the surviving one is followed by EpochStartAction. Blocks of
// the epoch being prepared are already verified meanwhile (ComputeConsensusGroup with the new epoch).
func TestVerifC15_AfterEpochChange(t *testing.T) {
	kit.Run(t, "C15", kit.Budget{Quick: 1200, Thorough: 12000},
		"the multi-epoch fixture of C16 (1-3 shards, min nodes 1..4, group <= min nodes, with/without rater, validator info derived from the current configuration with leaving/jailed/new/low-rated entries) drives two nodes through 1-3 epoch changes; every epoch change consists of 1-3 competing epoch start blocks of the same epoch (independently drawn validator info from the same current configuration; randomness equal to or different from the previous block's), each prepared with EpochStartPrepare on node A (LRU cache) and - all of them or only the last - on node B (no cache), the last one followed by EpochStartAction; after every block (after the last one with probability 1/2 a third node is restarted from the state node A saved, via LoadState) 1-3 fresh queries on the prepared or a still stored older epoch plus most of the up to 4 most recently remembered queries again (same randomness, round, shard, epoch - so a query answered under an earlier block of the same epoch is repeated under the later one); weights of the reference come from the ratings in the validator info of the block that is in force; non-trivial = query on an epoch produced by an epoch change with rater, list longer than g and two different weights; distinct by (list, weights, randomness, round)",
		func(rt *rapid.T, c *kit.Case) {
			keys := verifSHBDrawKeyGen(rt)
			s := verifSHBGenSetup(rt, keys)
			_, refHash := verifSHBHasher(s.hasherKind)
			cacheSize := rapid.SampledFrom([]int{1, 2, 1000, 1000}).Draw(rt, "lruSize")
			a, err := s.Build(s.selfPK, cacheSize, s.rater)
			if err != nil {
				rt.Fatalf("fixture: %v (%s)", err, s)
			}
			b, err := s.Build("observer-B", 0, s.rater)
			if err != nil {
				rt.Fatalf("fixture: %v (%s)", err, s)
			}
			marsh := a.Base.marshalizer
			minChance := s.chance.GetChance(0)
			// epoch -> public key -> weight used by the selector of that epoch
			weightsOf := map[uint32]map[string]uint32{}
			w0 := map[string]uint32{}
			for _, l := range s.eligible {
				for _, v := range l {
					w0[v.PK] = 1
					if s.rater {
						w0[v.PK] = v.Chances
						if v.Chances < minChance {
							w0[v.PK] = minChance
						}
					}
				}
			}
			weightsOf[s.e0] = w0

			eligible, waiting, ok := verifSHBReadCfg(a.NC(), s.e0)
			if !ok {
				rt.Fatalf("fixture: no initial configuration")
			}
			everPlaced := map[string]bool{}
			prevLeaving := map[string]bool{}
			cur := s.e0
			nEpochs := rapid.IntRange(1, 3).Draw(rt, "nEpochs")
			vanished := false
			var remembered []verifC15Query
			var history []string

			// ask puts one question to the given nodes and checks every answer against the reference
			ask := func(q verifC15Query, top uint32, nodes []*verifSHBCoord, again bool) {
				elQ, _, okQ := verifSHBReadCfg(a.NC(), q.epoch)
				if !okQ {
					c.Class("query-epoch-dropped") // older than the stored window
					return
				}
				listPK, okShard := elQ[q.shard]
				if !okShard {
					c.Class("query-shard-vanished") // remembered query on a shard that the replacing block dissolved
					return
				}
				g := verifC15GroupSize(q.shard, s.gS, s.gM)
				list := make([]verifSHBVal, len(listPK))
				weights := make([]uint32, len(listPK))
				for i, pk := range listPK {
					w, known := weightsOf[q.epoch][pk]
					if !known {
						rt.Fatalf("fixture: no weight known for key %s of epoch %d", verifSHBShort(pk), q.epoch)
					}
					list[i] = verifSHBVal{PK: pk, Chances: w}
					weights[i] = w
				}
				refSeed := []byte(strconv.FormatUint(q.round, 10) + "-" + string(q.randomness))
				idx := verifC15Naive(refHash, weights, refSeed, g)
				want := make([]string, len(idx))
				for i, ix := range idx {
					want[i] = listPK[ix]
				}
				desc := fmt.Sprintf("randomness %q round %d shard %d epoch %d (prepared up to %d, committed %d; asked before: %v), g=%d, eligible %v, weights %v; %s; %s", q.randomness, q.round, q.shard, q.epoch, top, cur, again, g, verifSHBShortList(listPK), weights, s, strings.Join(history, "; "))
				for ni, n := range nodes {
					var got []Validator
					c.NoPanic("C15:panic", func() { got, err = n.NC().ComputeConsensusGroup(q.randomness, q.round, q.shard, q.epoch) })
					if err != nil {
						c.Violation("C15:error", "unexpected error %v on node %d (%s)", err, ni, desc)
					}
					pks := verifSHBPubKeys(got)
					verifC15CheckGroup(c, pks, list, g, desc)
					if strings.Join(pks, "|") != strings.Join(want, "|") {
						c.Violation("C15:reference-differs-after-epoch-change", "node %d: got indexes %v want %v (%s)", ni, verifC15Indexes(pks, list), idx, desc)
					}
				}
				c.Class("query-ok")
				if q.epoch < top {
					c.Class("query-older-epoch")
				}
				if again {
					c.Class("query-asked-again")
				}
				distinctW := map[uint32]bool{}
				for _, w := range weights {
					distinctW[w] = true
				}
				if s.rater && q.epoch > s.e0 && len(listPK) > g && len(distinctW) >= 2 {
					c.NonTrivial(fmt.Sprint(listPK, weights, q.randomness, q.round))
					c.Sample("epoch %d (start %d) shard %d g=%d weights=%v randomness=%q round=%d -> %v", q.epoch, s.e0, q.shard, g, weights, q.randomness, q.round, idx)
				}
			}

			for k := 0; k < nEpochs; k++ {
				gone := verifSHBGone(eligible, waiting, everPlaced)
				nBlocks := rapid.SampledFrom([]int{1, 1, 2, 2, 3}).Draw(rt, "nBlocks")
				bSeesAll := rapid.Bool().Draw(rt, "nodeBSeesAllBlocks")
				top := cur + 1
				var seed []byte
				var lastInfos []verifSHBInfo
				for bi := 0; bi < nBlocks; bi++ {
					last := bi == nBlocks-1
					infos, _ := verifSHBGenInfos(rt, s, keys, eligible, waiting, prevLeaving, gone)
					lastInfos = infos
					wNew := map[string]uint32{}
					for _, in := range infos {
						wNew[in.PK] = 1
						if s.rater {
							wNew[in.PK] = s.chance.GetChance(in.TempRating)
							if wNew[in.PK] < minChance {
								wNew[in.PK] = minChance
							}
						}
					}
					if bi == 0 || rapid.IntRange(0, 2).Draw(rt, "newRandSeed") != 0 {
						seed = rapid.SliceOfN(rapid.Byte(), 1, 32).Draw(rt, "prevRandSeed")
					}
					history = append(history, fmt.Sprintf("epoch %d block %d/%d (rand %x, node B sees it: %v): %s", top, bi+1, nBlocks, seed, bSeesAll || last, verifSHBDescribeInfos(infos)))
					if bi > 0 {
						c.Class("epoch-prepared-again")
					}
					procs := []*verifSHBCoord{a}
					if bSeesAll || last {
						procs = append(procs, b)
					}
					accepted := make([]bool, len(procs))
					for ni, n := range procs {
						body, err := verifSHBBody(infos, marsh)
						if err != nil {
							rt.Fatalf("fixture: %v", err)
						}
						hdr := verifSHBEpochStartHeader(top, append([]byte{}, seed...))
						before := verifC15CfgIdentity(n, top)
						c.NoPanic("C15:epoch-change-panic", func() {
							n.Base.EpochStartPrepare(hdr, body)
							if last {
								n.Base.EpochStartAction(hdr)
							}
						})
						accepted[ni] = verifC15CfgIdentity(n, top) != before
					}
					if len(procs) == 2 && accepted[0] != accepted[1] {
						c.Violation("C15:epoch-known-to-one-node", "the same epoch start block of epoch %d was accepted by node A: %v, by node B: %v (%s; %s)", top, accepted[0], accepted[1], s, strings.Join(history, "; "))
					}
					if !accepted[0] {
						// the shuffler (too few nodes) or the coordinator (eligible list below the group size) refused;
						// the nodes keep whatever they had for that epoch, which is outside the property's domain
						c.Class("epoch-refused")
						return
					}
					weightsOf[top] = wNew
					if last {
						cur = top
					}

					// a node restarted from the state node A saved at this epoch change (storage bootstrap path)
					var restarted *verifSHBCoord
					if last {
						var okA bool
						eligible, waiting, okA = verifSHBReadCfg(a.NC(), cur)
						if !okA {
							rt.Fatalf("fixture: accepted epoch %d has no configuration", cur)
						}
						// (a stored configuration that lost a whole shard - all its eligible validators jailed at once - is
						// accepted by EpochStartPrepare but refused by LoadState; such histories are not restarted)
						if len(eligible) < int(s.nbShards)+1 {
							vanished = true // sticky: the saved registry may still hold an epoch node A already dropped
						}
						if vanished {
							c.Class("restart-skipped-vanished-shard")
						}
						if rapid.Bool().Draw(rt, "restart") && !vanished {
							restarted, err = s.BuildWithStorer("observer-R", 0, s.rater, a.Base.bootStorer)
							if err != nil {
								rt.Fatalf("fixture: %v", err)
							}
							err = restarted.NC().LoadState(a.Base.GetSavedStateKey())
							if err != nil {
								rt.Fatalf("fixture: LoadState: %v", err)
							}
							c.Class("restarted-node")
						}
					}

					nodes := []*verifSHBCoord{a, a}
					if bSeesAll || last {
						nodes = append(nodes, b)
					}
					if restarted != nil {
						nodes = append(nodes, restarted)
					}
					// questions asked before, again (the answers may have to change: the epoch was prepared again)
					start := 0
					if len(remembered) > 4 {
						start = len(remembered) - 4
					}
					for _, q := range remembered[start:] {
						if rapid.IntRange(0, 3).Draw(rt, "askAgain") != 0 {
							ask(q, top, nodes, true)
						}
					}
					nQueries := rapid.IntRange(1, 3).Draw(rt, "nQueries")
					for qi := 0; qi < nQueries; qi++ {
						back := rapid.SampledFrom([]uint32{0, 0, 0, 1, 2}).Draw(rt, "epochBack")
						if back > top-s.e0 {
							back = top - s.e0
						}
						epoch := top - back
						elQ, _, okQ := verifSHBReadCfg(a.NC(), epoch)
						if !okQ {
							c.Class("query-epoch-dropped")
							continue
						}
						// shards known to the coordinator for that epoch (a shard whose eligible validators were all
						// jailed disappears from the configuration)
						shards := make([]uint32, 0, len(elQ))
						for sh := range elQ {
							shards = append(shards, sh)
						}
						sort.Slice(shards, func(i, j int) bool { return shards[i] < shards[j] })
						if len(shards) < int(s.nbShards)+1 {
							c.Class("query-epoch-with-vanished-shard")
						}
						q := verifC15Query{
							shard:      shards[rapid.IntRange(0, len(shards)-1).Draw(rt, "qShard")],
							randomness: verifC15Randomness(rt, "rand"),
							round:      verifSHBBoundaryU64(rt, "round"),
							epoch:      epoch,
						}
						ask(q, top, nodes, false)
						remembered = append(remembered, q)
					}
				}
				prevLeaving = map[string]bool{}
				for _, in := range lastInfos {
					if in.List == string(core.LeavingList) {
						prevLeaving[in.PK] = true
					}
				}
			}
		})
}

// The selector alone, at much higher volume than the coordinator test allows.
func TestVerifC15_Selector(t *testing.T) {
	kit.Run(t, "C15", kit.Budget{Quick: 60000, Thorough: 1000000},
		"selectorExpandedList.Select over weight vectors of 1..20 validators (thorough sometimes 64), weights 1..40 in skewed shapes, sample size 1..n, seeds of 1-48 bytes: index sequence must have the requested length, be duplicate free, in range, and equal the naive sampler, and must still do so after a later Select with another seed and size on the same selector; non-trivial = sample size >= 3, n > sample size, max weight >= 10x min weight; distinct by (weights, seed, size)",
		func(rt *rapid.T, c *kit.Case) {
			hasher, refHash := verifSHBHasher(rapid.IntRange(0, 1).Draw(rt, "hasher"))
			maxN := 20
			if kit.Thorough() && rapid.IntRange(0, 19).Draw(rt, "big") == 0 {
				maxN = 64
			}
			n := rapid.IntRange(1, maxN).Draw(rt, "n")
			weights := verifC15Weights(rt, n, 40, "w")
			for i := range weights {
				if weights[i] == 0 {
					weights[i] = 1
				}
			}
			var g int
			switch rapid.IntRange(0, 3).Draw(rt, "gKind") {
			case 0:
				g = n
			case 1:
				g = (n + 1) / 2
			default:
				g = rapid.IntRange(1, n).Draw(rt, "g")
			}
			seed := verifC15Randomness(rt, "seed")
			sel, err := NewSelectorExpandedList(weights, hasher)
			if err != nil {
				rt.Fatalf("fixture: %v", err)
			}
			var got []uint32
			c.NoPanic("C15:selector-panic", func() { got, err = sel.Select(seed, uint32(g)) })
			if err != nil {
				c.Violation("C15:selector-error", "unexpected error %v (weights %v g %d)", err, weights, g)
			}
			want := verifC15Naive(refHash, weights, seed, g)
			if len(got) != g {
				c.Violation("C15:selector-size", "%d indexes for sample size %d (weights %v)", len(got), g, weights)
			}
			seen := map[uint32]bool{}
			for _, ix := range got {
				if int(ix) >= n {
					c.Violation("C15:selector-range", "index %d out of range %d", ix, n)
				}
				if seen[ix] {
					c.Violation("C15:selector-duplicate", "index %d selected twice: %v (weights %v seed %q g %d)", ix, got, weights, seed, g)
				}
				seen[ix] = true
			}
			for i := range got {
				if int(got[i]) != want[i] {
					c.Violation("C15:selector-reference-differs", "got %v want %v (weights %v seed %q g %d)", got, want, weights, seed, g)
				}
			}
			// the selector is shared by all rounds of an epoch: a later call with another seed and size must not change
			// the result an earlier caller still holds
			seed2 := verifC15Randomness(rt, "seed2")
			g2 := rapid.IntRange(1, n).Draw(rt, "g2")
			var got2 []uint32
			c.NoPanic("C15:selector-panic", func() { got2, err = sel.Select(seed2, uint32(g2)) })
			want2 := verifC15Naive(refHash, weights, seed2, g2)
			if err != nil || fmt.Sprint(verifC15Ints(got2)) != fmt.Sprint(want2) {
				c.Violation("C15:selector-reference-differs", "second selection on the same selector: got %v (err %v) want %v (weights %v seed %q g %d)", got2, err, want2, weights, seed2, g2)
			}
			if fmt.Sprint(verifC15Ints(got)) != fmt.Sprint(want) {
				c.Violation("C15:selector-earlier-result-changed", "the result of Select(seed %q, %d) was %v and reads %v after Select(seed %q, %d) on the same selector (weights %v)", seed, g, want, got, seed2, g2, weights)
			}
			// a second call on the same selector with the same arguments must agree
			var again []uint32
			c.NoPanic("C15:selector-panic", func() { again, err = sel.Select(seed, uint32(g)) })
			if err != nil || fmt.Sprint(again) != fmt.Sprint(got) {
				c.Violation("C15:selector-not-reproducible", "second call gives %v (err %v), first %v", again, err, got)
			}
			var maxW, minW uint32 = 0, ^uint32(0)
			for _, w := range weights {
				if w > maxW {
					maxW = w
				}
				if w < minW {
					minW = w
				}
			}
			if g >= 3 && n > g && maxW >= 10*minW {
				c.NonTrivial(fmt.Sprint(weights, seed, g))
				c.Sample("weights=%v seed=%q g=%d -> %v", weights, seed, g, got)
			}
		})
}

func verifC15Ints(l []uint32) []int {
	res := make([]int, len(l))
	for i, v := range l {
		res[i] = int(v)
	}
	return res
}

// regression / fixed examples (run in every tier)
func TestVerifC15_Regress(t *testing.T) {
	kit.Silence()
	hasher, refHash := verifSHBHasher(0)
	cases := []struct {
		weights []uint32
		g       int
		seed    string
	}{
		{[]uint32{40, 1, 1, 1, 1}, 5, "0-x"},
		{[]uint32{1, 1, 40, 1, 1, 1}, 4, "18446744073709551615-_1_0"},
		{[]uint32{1, 40, 1}, 3, "7-abc"},
		{[]uint32{5, 5, 5, 5}, 4, "1-\x00"},
	}
	for _, tc := range cases {
		sel, err := NewSelectorExpandedList(tc.weights, hasher)
		if err != nil {
			t.Fatalf("fixture: %v", err)
		}
		for r := 0; r < 50; r++ {
			seed := []byte(fmt.Sprintf("%s%d", tc.seed, r))
			got, err := sel.Select(seed, uint32(tc.g))
			if err != nil {
				kit.FailPlain(t, "C15", "C15:selector-error", "error %v for weights %v", err, tc.weights)
			}
			want := verifC15Naive(refHash, tc.weights, seed, tc.g)
			if fmt.Sprint(got) != fmt.Sprint(want) {
				kit.FailPlain(t, "C15", "C15:selector-reference-differs", "weights %v seed %q g %d: got %v want %v", tc.weights, seed, tc.g, got, want)
			}
		}
	}
}
