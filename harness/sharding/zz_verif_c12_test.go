package sharding

import (
	"fmt"
	"strings"
	"testing"

	"github.com/ElrondNetwork/elrond-go/core"
	kit "github.com/ElrondNetwork/elrond-go/verifkit"
	"pgregory.net/rapid"
)

// C12: Validator reshuffling neither loses nor duplicates validators.

// verifC12Check evaluates the conservation clauses on one (input, result) pair. report(key, msg) is called for
// the first violated clause of each kind; the clause about unknown leaving keys is evaluated last so that a
// recorded known finding for it never hides another clause.
func verifC12Check(in *verifSHAInput, r *verifSHAResult, report func(key, msg string)) (honoured, refused int) {
	inE, inW, inN := map[string]bool{}, map[string]bool{}, map[string]bool{}
	for _, s := range in.shardIDs {
		for _, v := range in.eligible[s] {
			inE[v.pk] = true
		}
		for _, v := range in.waiting[s] {
			inW[v.pk] = true
		}
	}
	for _, v := range in.newNodes {
		inN[v.pk] = true
	}
	isIn := func(k string) bool { return inE[k] || inW[k] || inN[k] }

	outEW := map[string]int{}
	where := map[string][]string{}
	note := func(k, place string) { where[k] = append(where[k], place) }
	for _, s := range verifSHASortedShards(r.eligible) {
		for _, k := range r.eligible[s] {
			outEW[k]++
			note(k, "eligible["+verifSHAShardName(s)+"]")
		}
	}
	for _, s := range verifSHASortedShards(r.waiting) {
		for _, k := range r.waiting[s] {
			outEW[k]++
			note(k, "waiting["+verifSHAShardName(s)+"]")
		}
	}
	outL := map[string]int{}
	for _, k := range r.leaving {
		outL[k]++
		note(k, "leaving")
	}
	ctx := func() string { return "input: " + in.String() + " => result: " + r.canon() }

	// (4) nothing invented in the new eligible/waiting lists
	for _, s := range verifSHASortedShards(r.eligible) {
		for _, k := range r.eligible[s] {
			if !isIn(k) {
				report("C12:invented-validator", fmt.Sprintf("key %x in new eligible[%s] was not eligible, waiting or new; %s", k, verifSHAShardName(s), ctx()))
			}
		}
	}
	for _, s := range verifSHASortedShards(r.waiting) {
		for _, k := range r.waiting[s] {
			if !isIn(k) {
				report("C12:invented-validator", fmt.Sprintf("key %x in new waiting[%s] was not eligible, waiting or new; %s", k, verifSHAShardName(s), ctx()))
			}
		}
	}
	// (1) every input validator exactly once in eligible+waiting+leaving
	all := make([]verifSHAVal, 0)
	for _, s := range in.shardIDs {
		all = append(all, in.eligible[s]...)
		all = append(all, in.waiting[s]...)
	}
	all = append(all, in.newNodes...)
	for _, v := range all {
		n := outEW[v.pk] + outL[v.pk]
		if n == 0 {
			report("C12:validator-lost", fmt.Sprintf("key %x is in no new eligible, waiting or leaving list; %s", v.pk[4:], ctx()))
		}
		if n > 1 {
			report("C12:validator-duplicated", fmt.Sprintf("key %x occurs %d times (%s); %s", v.pk[4:], n, strings.Join(where[v.pk], ", "), ctx()))
		}
	}
	// shard keys of the result are configured shards
	for _, m := range []map[uint32][]string{r.eligible, r.waiting} {
		for _, s := range verifSHASortedShards(m) {
			if s >= in.nbShards && s != core.MetachainShardId && len(m[s]) > 0 {
				report("C12:invalid-shard", fmt.Sprintf("validators placed in shard %d; %s", s, ctx()))
			}
		}
	}
	// (3) requests that were not honoured: the validator stays eligible or waiting; new nodes never leave
	requested := map[string]bool{}
	for _, l := range [][]verifSHAVal{in.unstake, in.additional} {
		for _, v := range l {
			if requested[v.pk] {
				continue
			}
			requested[v.pk] = true
			if !inE[v.pk] && !inW[v.pk] {
				continue
			}
			if outL[v.pk] > 0 {
				honoured++
			} else {
				refused++
				if outEW[v.pk] == 0 {
					report("C12:refused-leaver-not-kept", fmt.Sprintf("leaving request for %x was not honoured but the validator is in no list; %s", v.pk[4:], ctx()))
				}
			}
		}
	}
	for _, k := range r.stillRemaining {
		if outL[k] == 0 && outEW[k] == 0 {
			report("C12:refused-leaver-not-kept", fmt.Sprintf("StillRemaining holds %x which is in no new eligible/waiting list and not in Leaving; %s", k, ctx()))
		}
	}
	// (2) reported as leaving => was eligible or waiting before (last: see above)
	for _, k := range r.leaving {
		if !inE[k] && !inW[k] {
			kind := "unknown to eligible, waiting and new"
			if inN[k] {
				kind = "a new node"
			}
			if !requested[k] {
				// not even requested to leave: not the recorded known finding
				report("C12:leaving-invented-key", fmt.Sprintf("Leaving holds %x which is %s and was in no leaving request; %s", k, kind, ctx()))
				continue
			}
			// known finding: a key of the leaving *request* lists that is neither eligible nor waiting is echoed in Leaving
			report("C12:leaving-unknown-key", fmt.Sprintf("Leaving holds %x which is %s; %s", k, kind, ctx()))
		}
	}
	return honoured, refused
}

func TestVerifC12_Conservation(t *testing.T) {
	kit.Run(t, "C12", kit.Budget{Quick: 15000, Thorough: 200000},
		"SG: 1-4 shards + meta, NodesShard/NodesMeta 1-6, eligible 0-8 and waiting 0-6 per shard (mostly >= minimum), 0-5 new, unique 8-byte keys, two leaving lists drawn from eligible+waiting (none / few / one whole shard / everybody) with duplicates within and across lists and unknown keys, flags on/off by epoch, NodesToShufflePerShard 0-6, 1-32 random bytes, adaptivity on in 1/3 of the cases (node counts then cross the split and merge thresholds of computeNewShards, whose branches are stubs that must keep the configuration); oracle = multiset conservation over Eligible+Waiting+Leaving, Leaving subset of old eligible+waiting, refused leavers kept; non-trivial = (>=1 honoured and >=1 refused request) or a duplicate/unknown key in the leaving lists; distinct by (sizes, flags, leaving shape)",
		func(rt *rapid.T, c *kit.Case) {
			in := verifSHAGen(rt, verifSHAGeneral)
			sh, err := in.shuffler()
			if err != nil {
				rt.Fatalf("fixture: NewHashValidatorsShuffler: %v", err)
			}
			var res *ResUpdateNodes
			c.NoPanic("C12:update-node-lists-panic", func() { res, err = sh.UpdateNodeLists(in.build(nil)) })
			if err != nil {
				// documented clean reject: a shard holds fewer validators than its minimum
				tooSmall := false
				for _, s := range in.shardIDs {
					if len(in.eligible[s])+len(in.waiting[s]) < in.minOf(s) {
						tooSmall = true
					}
				}
				if !tooSmall {
					c.Violation("C12:unexpected-error", "UpdateNodeLists failed with %v although every shard holds its minimum; input: %s", err, in.String())
				}
				c.Class("rejected:shard-below-minimum")
				return
			}
			if res == nil {
				c.Violation("C12:unexpected-error", "nil result without error; input: %s", in.String())
			}
			r := verifSHAView(res, nil)
			honoured, refused := verifC12Check(in, r, func(key, msg string) { c.Violation(key, "%s", msg) })
			if in.fixActive() {
				c.Class("waitingListFix:on")
			} else {
				c.Class("waitingListFix:off")
			}
			if in.balanceActive() {
				c.Class("balance:on")
			}
			if in.args.Adaptivity {
				c.Class("adaptivity:on")
				switch in.reshard() {
				case 1:
					c.Class("adaptivity:split-branch")
				case -1:
					c.Class("adaptivity:merge-branch")
				}
			}
			if in.unknownLeaving > 0 {
				c.Class("leaving:unknown-key")
			}
			if in.dupLeaving > 0 {
				c.Class("leaving:duplicate")
			}
			if honoured > 0 {
				c.Class("leaving:honoured")
			}
			if refused > 0 {
				c.Class("leaving:refused")
			}
			if len(in.newNodes) > 0 {
				c.Class("new-nodes")
			}
			if (honoured > 0 && refused > 0) || in.unknownLeaving > 0 || in.dupLeaving > 0 {
				c.NonTrivial(in.shape())
				c.Sample("%s => %s", in.String(), r.canon())
			}
		})
}

// Regression table. Case 0 is the shrunk counterexample of the defect "leaving keys unknown to eligible and waiting
// are reported in Leaving" (1 shard, minimum 1, one waiting validator per shard, UnStakeLeaving = [unknown key]).
func TestVerifC12_Regress(t *testing.T) {
	kit.Silence()
	cases := []*verifSHAInput{
		verifSHAFixed(1, 1, [][2]int{{0, 1}, {0, 1}}, 0, []int{2}, nil, 0, 0, false),
		verifSHAFixed(1, 1, [][2]int{{1, 0}, {1, 0}}, 0, nil, []int{7}, 0, 0, false),
		verifSHAFixed(2, 2, [][2]int{{2, 1}, {2, 1}, {2, 1}}, 1, []int{0, 0, 99}, []int{0, 3, 98, 98}, 0, 1, true),
		verifSHAFixed(2, 2, [][2]int{{2, 1}, {2, 1}, {2, 1}}, 2, []int{0, 1, 2}, []int{3, 4, 5, 6, 7, 8}, 5, 1, true),
		verifSHAFixed(3, 2, [][2]int{{3, 3}, {2, 1}}, 3, []int{5, 4, 3, 2, 1, 0}, []int{8, 7, 6}, 0, 0, false),
	}
	// the same inputs with adaptivity on: case 3 crosses the split threshold (21 nodes > 3*2+2), case 5 (all of a
	// shard asked to leave) the merge threshold
	for _, in := range cases[:5] {
		cp := *in
		cp.args.Adaptivity = true
		cases = append(cases, &cp)
	}
	for i, in := range cases {
		sh, err := in.shuffler()
		if err != nil {
			t.Fatalf("fixture: %v", err)
		}
		res, err := sh.UpdateNodeLists(in.build(nil))
		if err != nil {
			t.Fatalf("fixture: case %d rejected: %v", i, err)
		}
		verifC12Check(in, verifSHAView(res, nil), func(key, msg string) {
			kit.FailPlain(t, "C12", key, "regression case %d: %s", i, msg)
		})
	}
}
