package sharding

// Helpers shared by the C15 and C16 harnesses (nodes coordinator). In-package: uses the package's own
// test helpers (createArguments) and mocks. Everything here is prefixed verifSHB.

import (
	"crypto/sha256"
	"encoding/binary"
	"encoding/json"
	"fmt"
	"sort"
	"strings"

	"github.com/ElrondNetwork/elrond-go/config"
	"github.com/ElrondNetwork/elrond-go/core"
	"github.com/ElrondNetwork/elrond-go/data/block"
	"github.com/ElrondNetwork/elrond-go/data/endProcess"
	"github.com/ElrondNetwork/elrond-go/data/state"
	"github.com/ElrondNetwork/elrond-go/hashing"
	"github.com/ElrondNetwork/elrond-go/hashing/blake2b"
	"github.com/ElrondNetwork/elrond-go/marshal"
	"github.com/ElrondNetwork/elrond-go/sharding/mock"
	"github.com/ElrondNetwork/elrond-go/storage"
	"github.com/ElrondNetwork/elrond-go/storage/lrucache"
	blake2bLib "golang.org/x/crypto/blake2b"
	"pgregory.net/rapid"
)

// verifSHBVal is the harness-side description of one validator.
type verifSHBVal struct {
	PK      string
	Chances uint32
	Index   uint32
}

// verifSHBChance is a deterministic ChanceComputer: rating r has chance Table[r] if r < len(Table), else Top.
// Table[0] is the minimum chance (chance of rating 0), as in the production ratings configuration.
type verifSHBChance struct {
	Table []uint32
	Top   uint32
}

func (cc *verifSHBChance) GetChance(rating uint32) uint32 {
	if int(rating) < len(cc.Table) {
		return cc.Table[rating]
	}
	return cc.Top
}

func (cc *verifSHBChance) IsInterfaceNil() bool { return cc == nil }

// verifSHBShardIDs returns 0..nbShards-1 followed by the metachain id.
func verifSHBShardIDs(nbShards uint32) []uint32 {
	ids := make([]uint32, 0, nbShards+1)
	for s := uint32(0); s < nbShards; s++ {
		ids = append(ids, s)
	}
	return append(ids, core.MetachainShardId)
}

// verifSHBKeyGen hands out unique public keys (uniqueness of validator keys is an invariant of the
// staking contract; the coordinator's maps rely on it).
type verifSHBKeyGen struct {
	next   int
	long   bool
	ragged bool // keys of different lengths that share prefixes (wider than production, where keys are 96 bytes)
}

// verifSHBDrawKeyGen draws the kind of keys of a case: 96-byte keys (1/4), ragged keys (1/4), 8-byte keys (1/2).
func verifSHBDrawKeyGen(rt *rapid.T) *verifSHBKeyGen {
	kind := rapid.IntRange(0, 3).Draw(rt, "longKeys")
	return &verifSHBKeyGen{long: kind == 0, ragged: kind == 1}
}

func (g *verifSHBKeyGen) New() string {
	g.next++
	if g.ragged {
		// "k" + the counter in base 3 with the digits a, b, c and no padding: kb, kc, kba, kbb, ... - unique, 2 to 7
		// bytes for the first 700 keys, every key a prefix of later ones
		digits := []byte{}
		for n := g.next; n > 0; n /= 3 {
			digits = append([]byte{byte('a' + n%3)}, digits...)
		}
		return "k" + string(digits)
	}
	if g.long {
		// 96-byte keys like BLS public keys
		h := sha256.Sum256([]byte(fmt.Sprintf("verif-pk-%d", g.next)))
		b := make([]byte, 0, 96)
		b = append(b, h[:]...)
		b = append(b, h[:]...)
		b = append(b, h[:]...)
		binary.BigEndian.PutUint32(b[92:], uint32(g.next))
		return string(b)
	}
	return fmt.Sprintf("pk%06d", g.next)
}

// verifSHBBuildMap makes fresh Validator objects (the coordinator keeps the maps it is given).
func verifSHBBuildMap(spec map[uint32][]verifSHBVal) map[uint32][]Validator {
	res := make(map[uint32][]Validator, len(spec))
	for shard, list := range spec {
		vl := make([]Validator, 0, len(list))
		for _, v := range list {
			nv, _ := NewValidator([]byte(v.PK), v.Chances, v.Index)
			vl = append(vl, nv)
		}
		res[shard] = vl
	}
	return res
}

// verifSHBHasher returns the production hasher of the given kind and an independent function computing the
// same digest directly from the standard / x/crypto library (used by reference models).
func verifSHBHasher(kind int) (hashing.Hasher, func([]byte) []byte) {
	if kind == 1 {
		return blake2b.NewBlake2b(), func(b []byte) []byte {
			h := blake2bLib.Sum256(b)
			return h[:]
		}
	}
	return &mock.HasherMock{}, func(b []byte) []byte {
		h := sha256.Sum256(b)
		return h[:]
	}
}

// verifSHBCoordCfg describes one coordinator instance to construct.
type verifSHBCoordCfg struct {
	NbShards       uint32
	ShardGroup     int
	MetaGroup      int
	Epoch          uint32
	Eligible       map[uint32][]verifSHBVal
	Waiting        map[uint32][]verifSHBVal
	SelfPK         string
	Hasher         hashing.Hasher
	Shuffler       NodesShuffler
	CacheSize      int // 0 = no-op cache mock, otherwise a real LRU of that capacity
	WaitingListFix uint32
	Chance         *verifSHBChance // nil = plain coordinator
	BootStorer     storage.Storer  // nil = a fresh in-memory storer
	// if set, these validator maps are handed to the constructor as they are (instead of maps built from Eligible / Waiting)
	EligibleBuilt map[uint32][]Validator
	WaitingBuilt  map[uint32][]Validator
}

// verifSHBCoord bundles the base coordinator and (if any) its rater wrapper.
type verifSHBCoord struct {
	Base  *indexHashedNodesCoordinator
	Rater *indexHashedNodesCoordinatorWithRater
}

// NC returns the object a node would use.
func (c *verifSHBCoord) NC() NodesCoordinator {
	if c.Rater != nil {
		return c.Rater
	}
	return c.Base
}

func verifSHBNewCoord(cfg verifSHBCoordCfg) (*verifSHBCoord, error) {
	args := createArguments()
	args.NbShards = cfg.NbShards
	args.ShardConsensusGroupSize = cfg.ShardGroup
	args.MetaConsensusGroupSize = cfg.MetaGroup
	args.Epoch = cfg.Epoch
	args.StartEpoch = cfg.Epoch
	args.EligibleNodes = verifSHBBuildMap(cfg.Eligible)
	args.WaitingNodes = verifSHBBuildMap(cfg.Waiting)
	if cfg.EligibleBuilt != nil {
		args.EligibleNodes = cfg.EligibleBuilt
		args.WaitingNodes = cfg.WaitingBuilt
	}
	args.SelfPublicKey = []byte(cfg.SelfPK)
	args.Marshalizer = &marshal.GogoProtoMarshalizer{}
	args.Hasher = cfg.Hasher
	args.WaitingListFixEnabledEpoch = cfg.WaitingListFix
	args.ChanStopNode = make(chan endProcess.ArgEndProcess, 1)
	if cfg.Shuffler != nil {
		args.Shuffler = cfg.Shuffler
	}
	if cfg.BootStorer != nil {
		args.BootStorer = cfg.BootStorer
	}
	if cfg.CacheSize > 0 {
		cache, err := lrucache.NewCache(cfg.CacheSize)
		if err != nil {
			return nil, err
		}
		args.ConsensusGroupCache = cache
	} else {
		args.ConsensusGroupCache = &mock.NodesCoordinatorCacheMock{}
	}
	base, err := NewIndexHashedNodesCoordinator(args)
	if err != nil {
		return nil, err
	}
	res := &verifSHBCoord{Base: base}
	if cfg.Chance != nil {
		res.Rater, err = NewIndexHashedNodesCoordinatorWithRater(base, cfg.Chance)
		if err != nil {
			return nil, err
		}
	}
	return res, nil
}

// verifSHBInfo is one entry of the validator information of an epoch start block.
type verifSHBInfo struct {
	PK         string
	Shard      uint32
	List       string
	Index      uint32
	TempRating uint32
}

// verifSHBBody marshals the entries into peer miniblocks the way the metachain does it (one miniblock per
// shard, shards ascending with the metachain last). The order inside a miniblock is the order given.
func verifSHBBody(infos []verifSHBInfo, m marshal.Marshalizer) (*block.Body, error) {
	perShard := map[uint32][]verifSHBInfo{}
	for _, in := range infos {
		perShard[in.Shard] = append(perShard[in.Shard], in)
	}
	shards := make([]uint32, 0, len(perShard))
	for s := range perShard {
		shards = append(shards, s)
	}
	sort.Slice(shards, func(i, j int) bool { return shards[i] < shards[j] })
	body := &block.Body{}
	for _, s := range shards {
		mb := &block.MiniBlock{Type: block.PeerBlock, SenderShardID: core.MetachainShardId, ReceiverShardID: core.AllShardId}
		for _, in := range perShard[s] {
			b, err := m.Marshal(&state.ShardValidatorInfo{
				PublicKey: []byte(in.PK), ShardId: in.Shard, List: in.List, Index: in.Index, TempRating: in.TempRating,
			})
			if err != nil {
				return nil, err
			}
			mb.TxHashes = append(mb.TxHashes, b)
		}
		body.MiniBlocks = append(body.MiniBlocks, mb)
	}
	return body, nil
}

// verifSHBEpochStartHeader is a metachain epoch start header for the given epoch.
func verifSHBEpochStartHeader(epoch uint32, prevRandSeed []byte) *block.MetaBlock {
	return &block.MetaBlock{
		Epoch:        epoch,
		PrevRandSeed: prevRandSeed,
		EpochStart:   block.EpochStart{LastFinalizedHeaders: []block.EpochStartShardData{{}}},
	}
}

// verifSHBBoundaryU64 draws a uint64 biased to boundaries.
func verifSHBBoundaryU64(rt *rapid.T, label string) uint64 {
	switch rapid.IntRange(0, 5).Draw(rt, label+"Kind") {
	case 0:
		return rapid.Uint64Range(0, 3).Draw(rt, label)
	case 1:
		return ^uint64(0) - rapid.Uint64Range(0, 3).Draw(rt, label)
	case 2:
		return uint64(1)<<uint(rapid.IntRange(0, 63).Draw(rt, label+"Bit")) - rapid.Uint64Range(0, 1).Draw(rt, label)
	default:
		return rapid.Uint64().Draw(rt, label)
	}
}

// verifSHBPubKeys extracts the public keys of a validator list, in order.
func verifSHBPubKeys(vals []Validator) []string {
	res := make([]string, len(vals))
	for i, v := range vals {
		res[i] = string(v.PubKey())
	}
	return res
}

// ---- multi-epoch fixture (used by C16 and by the epoch-change part of C15)

type verifSHBSetup struct {
	nbShards    uint32
	nodesShard  uint32
	nodesMeta   uint32
	gS, gM      int
	hysteresis  float32
	crossShard  bool
	maxNodesCfg []config.MaxNodesChangeConfig
	balanceEp   uint32
	fixEp       uint32
	e0          uint32
	rater       bool
	chance      *verifSHBChance
	hasherKind  int
	eligible    map[uint32][]verifSHBVal
	waiting     map[uint32][]verifSHBVal
	selfPK      string
	cacheSize   int
	threshold   uint32 // ratings below it (and > 0) have a chance below the minimum
	initialKeys []string
}

func verifSHBGenSetup(rt *rapid.T, keys *verifSHBKeyGen) *verifSHBSetup {
	s := &verifSHBSetup{}
	s.nbShards = uint32(rapid.IntRange(1, 3).Draw(rt, "nbShards"))
	s.nodesShard = uint32(rapid.IntRange(1, 4).Draw(rt, "nodesShard"))
	s.nodesMeta = uint32(rapid.IntRange(1, 4).Draw(rt, "nodesMeta"))
	// the genesis configuration requires min nodes >= consensus group size
	s.gS = rapid.IntRange(1, int(s.nodesShard)).Draw(rt, "gShard")
	s.gM = rapid.IntRange(1, int(s.nodesMeta)).Draw(rt, "gMeta")
	s.hysteresis = rapid.SampledFrom([]float32{0, 0.2, 1}).Draw(rt, "hysteresis")
	s.crossShard = rapid.IntRange(0, 3).Draw(rt, "crossShard") != 0
	nCfg := rapid.IntRange(0, 2).Draw(rt, "nMaxNodesCfg")
	for i := 0; i < nCfg; i++ {
		s.maxNodesCfg = append(s.maxNodesCfg, config.MaxNodesChangeConfig{
			EpochEnable:            uint32(rapid.IntRange(0, 5).Draw(rt, "cfgEpoch")),
			MaxNumNodes:            uint32(rapid.IntRange(0, 60).Draw(rt, "cfgMaxNodes")),
			NodesToShufflePerShard: uint32(rapid.IntRange(0, 4).Draw(rt, "cfgToShuffle")),
		})
	}
	s.balanceEp = rapid.SampledFrom([]uint32{0, 3, 1000}).Draw(rt, "balanceEpoch")
	s.fixEp = rapid.SampledFrom([]uint32{0, 0, 3, 1000}).Draw(rt, "fixEpoch")
	s.e0 = uint32(rapid.IntRange(0, 3).Draw(rt, "epoch0"))
	s.rater = rapid.Bool().Draw(rt, "rater")
	s.hasherKind = rapid.IntRange(0, 1).Draw(rt, "hasher")
	minChance := rapid.SampledFrom([]uint32{1, 2, 5}).Draw(rt, "minChance")
	s.threshold = uint32(rapid.IntRange(1, 10).Draw(rt, "threshold"))
	// production-like table: rating 0 -> minimum chance, ratings 1..threshold-1 -> 0 (to be removed), then rising
	table := []uint32{minChance}
	for r := uint32(1); r < s.threshold; r++ {
		table = append(table, 0)
	}
	for r := s.threshold; r < 40; r++ {
		table = append(table, minChance+(r-s.threshold)/4)
	}
	s.chance = &verifSHBChance{Table: table, Top: minChance + 10}
	s.cacheSize = rapid.SampledFrom([]int{0, 100}).Draw(rt, "cacheSize")

	s.eligible = map[uint32][]verifSHBVal{}
	s.waiting = map[uint32][]verifSHBVal{}
	for _, sh := range verifSHBShardIDs(s.nbShards) {
		minN := int(s.nodesShard)
		if sh == core.MetachainShardId {
			minN = int(s.nodesMeta)
		}
		ne := minN + rapid.IntRange(0, 4).Draw(rt, "extraEligible")
		nw := rapid.IntRange(0, 4).Draw(rt, "nWaiting")
		for i := 0; i < ne; i++ {
			pk := keys.New()
			s.initialKeys = append(s.initialKeys, pk)
			s.eligible[sh] = append(s.eligible[sh], verifSHBVal{PK: pk, Chances: s.chance.Top, Index: uint32(i)})
		}
		s.waiting[sh] = []verifSHBVal{}
		for i := 0; i < nw; i++ {
			pk := keys.New()
			s.initialKeys = append(s.initialKeys, pk)
			s.waiting[sh] = append(s.waiting[sh], verifSHBVal{PK: pk, Chances: s.chance.Top, Index: uint32(i)})
		}
	}
	// own key: an observer or one of the validators
	s.selfPK = "observer"
	if rapid.Bool().Draw(rt, "selfIsValidator") {
		s.selfPK = s.initialKeys[rapid.IntRange(0, len(s.initialKeys)-1).Draw(rt, "selfIdx")]
	}
	return s
}

func (s *verifSHBSetup) String() string {
	return fmt.Sprintf("nbShards=%d nodesShard=%d nodesMeta=%d gS=%d gM=%d hysteresis=%v crossShard=%v maxNodesCfg=%v balanceEpoch=%d waitingListFixEpoch=%d startEpoch=%d rater=%v minChance=%d threshold=%d self=%q",
		s.nbShards, s.nodesShard, s.nodesMeta, s.gS, s.gM, s.hysteresis, s.crossShard, s.maxNodesCfg, s.balanceEp, s.fixEp, s.e0, s.rater, s.chance.Table[0], s.threshold, s.selfPK)
}

// Build constructs one node of the network described by s (own shuffler instance per node).
func (s *verifSHBSetup) Build(selfPK string, cacheSize int, rater bool) (*verifSHBCoord, error) {
	return s.BuildWithStorer(selfPK, cacheSize, rater, nil)
}

// BuildWithStorer is Build with a given boot storer (to restart a node from another node's saved state).
func (s *verifSHBSetup) BuildWithStorer(selfPK string, cacheSize int, rater bool, storer storage.Storer) (*verifSHBCoord, error) {
	shuffler, err := NewHashValidatorsShuffler(&NodesShufflerArgs{
		NodesShard:                     s.nodesShard,
		NodesMeta:                      s.nodesMeta,
		Hysteresis:                     s.hysteresis,
		Adaptivity:                     false,
		ShuffleBetweenShards:           s.crossShard,
		MaxNodesEnableConfig:           s.maxNodesCfg,
		BalanceWaitingListsEnableEpoch: s.balanceEp,
		WaitingListFixEnableEpoch:      s.fixEp,
	})
	if err != nil {
		return nil, err
	}
	hasher, _ := verifSHBHasher(s.hasherKind)
	cfg := verifSHBCoordCfg{
		NbShards: s.nbShards, ShardGroup: s.gS, MetaGroup: s.gM, Epoch: s.e0,
		Eligible: s.eligible, Waiting: s.waiting, SelfPK: selfPK, Hasher: hasher,
		Shuffler: shuffler, CacheSize: cacheSize, WaitingListFix: s.fixEp, BootStorer: storer,
	}
	if rater {
		cfg.Chance = s.chance
	}
	return verifSHBNewCoord(cfg)
}

// verifSHBShort renders a public key for messages (long binary keys are abbreviated).
func verifSHBShort(pk string) string {
	if len(pk) <= 12 {
		return pk
	}
	return fmt.Sprintf("%x..%x", pk[:3], pk[len(pk)-4:])
}

// verifSHBShortList renders a list of keys.
func verifSHBShortList(pks []string) []string {
	res := make([]string, len(pks))
	for i, pk := range pks {
		res[i] = verifSHBShort(pk)
	}
	return res
}

// verifSHBReadCfg reads the eligible and waiting lists (ordered public keys per shard) of an epoch through the
// public getters; ok=false if the coordinator has no configuration for the epoch.
func verifSHBReadCfg(nc NodesCoordinator, epoch uint32) (eligible, waiting map[uint32][]string, ok bool) {
	el, err := nc.GetAllEligibleValidatorsPublicKeys(epoch)
	if err != nil {
		return nil, nil, false
	}
	wt, err := nc.GetAllWaitingValidatorsPublicKeys(epoch)
	if err != nil {
		return nil, nil, false
	}
	eligible = map[uint32][]string{}
	waiting = map[uint32][]string{}
	for s, l := range el {
		for _, pk := range l {
			eligible[s] = append(eligible[s], string(pk))
		}
	}
	for s, l := range wt {
		for _, pk := range l {
			waiting[s] = append(waiting[s], string(pk))
		}
	}
	return eligible, waiting, true
}

// verifSHBGone lists (sorted) the keys that had a place in an earlier configuration of the history but have
// none in the current one; everPlaced is updated with the current configuration.
func verifSHBGone(eligible, waiting map[uint32][]string, everPlaced map[string]bool) []string {
	gone := make([]string, 0)
	inCurrent := map[string]bool{}
	for _, m := range []map[uint32][]string{eligible, waiting} {
		for _, l := range m {
			for _, pk := range l {
				inCurrent[pk] = true
				everPlaced[pk] = true
			}
		}
	}
	for pk := range everPlaced {
		if !inCurrent[pk] {
			gone = append(gone, pk)
		}
	}
	sort.Strings(gone)
	return gone
}

type verifSHBEpochStats struct {
	leavingEligible, leavingWaiting, newNodes, jailed, unknownLeaving, lowRated, returning int
}

// verifSHBGenInfos derives the validator information of the next epoch start from the current configuration:
// every current validator keeps (list, shard), or is reported leaving / jailed / inactive with its current
// shard; plus new nodes, jailed / inactive nodes and leaving nodes that the configuration does not know.
func verifSHBGenInfos(rt *rapid.T, s *verifSHBSetup, keys *verifSHBKeyGen, eligible, waiting map[uint32][]string, prevLeaving map[string]bool, gone []string) ([]verifSHBInfo, verifSHBEpochStats) {
	var infos []verifSHBInfo
	var st verifSHBEpochStats
	leaveRate := rapid.SampledFrom([]int{0, 5, 15, 40, 90}).Draw(rt, "leaveRate")
	jailRate := rapid.SampledFrom([]int{0, 0, 5, 20}).Draw(rt, "jailRate")
	lowRate := 0
	if s.rater {
		lowRate = rapid.SampledFrom([]int{0, 5, 25}).Draw(rt, "lowRatingRate")
	}
	positional := rapid.Bool().Draw(rt, "positionalIndex")
	shards := verifSHBShardIDs(s.nbShards)
	rating := func() uint32 {
		if lowRate > 0 && rapid.IntRange(0, 99).Draw(rt, "isLow") < lowRate {
			st.lowRated++
			if s.threshold > 1 {
				return uint32(rapid.IntRange(1, int(s.threshold)-1).Draw(rt, "lowRating"))
			}
		}
		return uint32(rapid.IntRange(int(s.threshold), 50).Draw(rt, "rating"))
	}
	index := func(pos int) uint32 {
		if positional {
			return uint32(pos)
		}
		return uint32(rapid.IntRange(0, 6).Draw(rt, "index"))
	}
	addCurrent := func(list string, m map[uint32][]string) {
		// all shards present in the configuration, ascending, metachain last
		ids := make([]uint32, 0, len(m))
		for sh := range m {
			ids = append(ids, sh)
		}
		sort.Slice(ids, func(i, j int) bool { return ids[i] < ids[j] })
		for _, sh := range ids {
			for pos, pk := range m[sh] {
				in := verifSHBInfo{PK: pk, Shard: sh, List: list, Index: index(pos), TempRating: rating()}
				roll := rapid.IntRange(0, 99).Draw(rt, "fate")
				switch {
				case roll < leaveRate || (prevLeaving[pk] && roll < 80):
					// a refused leaving request stays pending in the staking contract
					in.List = string(core.LeavingList)
					if list == string(core.EligibleList) {
						st.leavingEligible++
					} else {
						st.leavingWaiting++
					}
				case roll < leaveRate+jailRate:
					st.jailed++
					in.List = rapid.SampledFrom([]string{string(core.JailedList), string(core.InactiveList)}).Draw(rt, "jailKind")
				}
				infos = append(infos, in)
			}
		}
	}
	addCurrent(string(core.EligibleList), eligible)
	addCurrent(string(core.WaitingList), waiting)

	extraShard := func() uint32 { return shards[rapid.IntRange(0, len(shards)-1).Draw(rt, "extraShard")] }
	nNew := rapid.IntRange(0, 4).Draw(rt, "nNew")
	st.newNodes = nNew
	usedGone := map[string]bool{}
	for i := 0; i < nNew; i++ {
		pk := ""
		if len(gone) > 0 && rapid.IntRange(0, 2).Draw(rt, "returning") == 0 {
			// a validator that left (or was jailed) in an earlier epoch of this history stakes again
			cand := gone[rapid.IntRange(0, len(gone)-1).Draw(rt, "returningIdx")]
			if !usedGone[cand] {
				usedGone[cand] = true
				pk = cand
				st.returning++
			}
		}
		if pk == "" {
			pk = keys.New()
		}
		infos = append(infos, verifSHBInfo{PK: pk, Shard: extraShard(), List: string(core.NewList), Index: index(i), TempRating: rating()})
	}
	nOut := rapid.IntRange(0, 2).Draw(rt, "nJailedExtra")
	for i := 0; i < nOut; i++ {
		l := rapid.SampledFrom([]string{string(core.JailedList), string(core.InactiveList)}).Draw(rt, "extraJailKind")
		infos = append(infos, verifSHBInfo{PK: keys.New(), Shard: extraShard(), List: l, Index: index(i), TempRating: rating()})
	}
	nUnk := rapid.IntRange(0, 2).Draw(rt, "nUnknownLeaving")
	st.unknownLeaving = nUnk
	for i := 0; i < nUnk; i++ {
		infos = append(infos, verifSHBInfo{PK: keys.New(), Shard: extraShard(), List: string(core.LeavingList), Index: index(i), TempRating: rating()})
	}

	// order inside a shard's miniblock: the metachain sorts by public key; sometimes a drawn permutation
	if rapid.IntRange(0, 3).Draw(rt, "permute") == 0 {
		perm := rapid.Permutation(infos).Draw(rt, "perm")
		infos = perm
	} else {
		sort.SliceStable(infos, func(i, j int) bool { return infos[i].PK < infos[j].PK })
	}
	return infos, st
}

// verifSHBShardName renders a shard id ("meta" for the metachain).
func verifSHBShardName(s uint32) string {
	if s == core.MetachainShardId {
		return "meta"
	}
	return fmt.Sprint(s)
}

// verifSHBDescribeInfos writes out the validator information of an epoch start block.
func verifSHBDescribeInfos(infos []verifSHBInfo) string {
	var sb strings.Builder
	for _, in := range infos {
		fmt.Fprintf(&sb, "%s:%s@%s/i%d/r%d ", verifSHBShort(in.PK), in.List, verifSHBShardName(in.Shard), in.Index, in.TempRating)
	}
	return sb.String()
}

// verifSHBDescribeCfg writes out a configuration (ordered lists per shard, shards ascending); leaving may be nil.
func verifSHBDescribeCfg(el, wt, leaving map[uint32][]string) string {
	var sb strings.Builder
	ids := map[uint32]bool{}
	for _, m := range []map[uint32][]string{el, wt, leaving} {
		for s := range m {
			ids[s] = true
		}
	}
	sorted := make([]uint32, 0, len(ids))
	for s := range ids {
		sorted = append(sorted, s)
	}
	sort.Slice(sorted, func(i, j int) bool { return sorted[i] < sorted[j] })
	for _, s := range sorted {
		fmt.Fprintf(&sb, "[%s E=%v W=%v", verifSHBShardName(s), verifSHBShortList(el[s]), verifSHBShortList(wt[s]))
		if leaving != nil {
			fmt.Fprintf(&sb, " L=%v", verifSHBShortList(leaving[s]))
		}
		sb.WriteString("] ")
	}
	return sb.String()
}

// verifSHBReadLeaving reads the leaving lists (ordered public keys per shard) of an epoch.
func verifSHBReadLeaving(nc NodesCoordinator, epoch uint32) (map[uint32][]string, bool) {
	lv, err := nc.GetAllLeavingValidatorsPublicKeys(epoch)
	if err != nil {
		return nil, false
	}
	leaving := map[uint32][]string{}
	for s, l := range lv {
		for _, pk := range l {
			leaving[s] = append(leaving[s], string(pk))
		}
	}
	return leaving, true
}

// verifSHBFromRegistry rebuilds the validator maps of one epoch the way factory.CreateNodesCoordinator does for a
// node that bootstraps from an epoch start (bootstrapParameters.NodesConfig() != nil): the registry another node
// exports (NodesCoordinatorToRegistry; optionally through its JSON form, as saved by saveState and read back by the
// storage bootstrap), EpochsConfig[epoch], SerializableValidatorsToValidators for the eligible and waiting lists.
func verifSHBFromRegistry(src *verifSHBCoord, epoch uint32, viaJSON bool) (eligible, waiting map[uint32][]Validator, err error) {
	registry := src.Base.NodesCoordinatorToRegistry()
	if viaJSON {
		buf, errM := json.Marshal(registry)
		if errM != nil {
			return nil, nil, errM
		}
		registry = &NodesCoordinatorRegistry{}
		if errM = json.Unmarshal(buf, registry); errM != nil {
			return nil, nil, errM
		}
	}
	epochCfg, ok := registry.EpochsConfig[fmt.Sprintf("%d", epoch)]
	if !ok {
		return nil, nil, fmt.Errorf("registry has no epoch %d", epoch)
	}
	eligible, err = SerializableValidatorsToValidators(epochCfg.EligibleValidators)
	if err != nil {
		return nil, nil, err
	}
	waiting, err = SerializableValidatorsToValidators(epochCfg.WaitingValidators)
	if err != nil {
		return nil, nil, err
	}
	return eligible, waiting, nil
}
