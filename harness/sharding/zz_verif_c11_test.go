package sharding

import (
	"bytes"
	"fmt"
	"testing"

	"github.com/ElrondNetwork/elrond-go/core"
	kit "github.com/ElrondNetwork/elrond-go/verifkit"
	"pgregory.net/rapid"
)

// C11: Every address maps to exactly one valid shard.

// verifC11IsMetaSC is the harness's own predicate "metachain system smart contract address", written from the
// documented address layout (core/address.go constants): 8 zero bytes, 2 VM-type bytes, 15 zero bytes, ...,
// shard identifier = trailing byte(s) 0xff. For <= 256 shards the identifier is the last byte.
func verifC11IsMetaSC(a []byte) bool {
	if len(a) <= 25 {
		return false
	}
	for i := 0; i < 8; i++ {
		if a[i] != 0 {
			return false
		}
	}
	for i := 10; i < 25; i++ {
		if a[i] != 0 {
			return false
		}
	}
	return a[len(a)-1] == 0xff
}

// verifC11Shapes builds the enumerated address shapes; every shape gets last byte b (shape "empty" ignores it).
var verifC11ShapeNames = []string{
	"plain32", "metaSC-vm0", "metaSC-vm1", "metaSC-body", "sc-not-meta", "sc-not-meta-late", "zeros32",
	"len1", "len10", "len11", "len25", "len26-zero", "len33-plain", "len33-zero", "empty",
}

func verifC11Shape(kind int, b byte) []byte {
	fill := func(n int, v byte) []byte { return bytes.Repeat([]byte{v}, n) }
	var a []byte
	switch kind {
	case 0: // plain user address
		a = fill(32, 0x5a)
		a[0] = 0x01
	case 1: // system SC layout, VM type 00 00
		a = make([]byte, 32)
		a[30] = 0xff
	case 2: // system SC layout as used by vm/address.go: VM type 00 01, id byte, ff ff
		a = make([]byte, 32)
		a[9] = 0x01
		a[29] = 0x01
		a[30] = 0xff
	case 3: // system SC layout with a non-zero body after the 15 zero bytes and non-zero VM type
		a = make([]byte, 32)
		a[8], a[9] = 0x05, 0x00
		for i := 25; i < 31; i++ {
			a[i] = 0xc3
		}
	case 4: // ordinary smart contract: 8 zero bytes, VM type, hash-derived body (non-zero in bytes 10..24)
		a = fill(32, 0x77)
		for i := 0; i < 8; i++ {
			a[i] = 0
		}
		a[8], a[9] = 0x05, 0x00
	case 5: // ordinary smart contract whose only non-zero byte of 10..24 is the last one (byte 24)
		a = make([]byte, 32)
		a[24] = 0x01
	case 6:
		a = make([]byte, 32)
	case 7:
		a = make([]byte, 1)
	case 8:
		a = make([]byte, 10)
	case 9:
		a = make([]byte, 11)
	case 10:
		a = make([]byte, 25)
	case 11:
		a = make([]byte, 26)
	case 12:
		a = fill(33, 0x21)
	case 13:
		a = make([]byte, 33)
	case 14:
		return []byte{}
	}
	a[len(a)-1] = b
	return a
}

// verifC11CheckOne evaluates the per-address clauses; report is called with (key, message) on a violation.
func verifC11CheckOne(c1, c2 Coordinator, n uint32, a []byte, report func(key, msg string)) (id uint32) {
	var id2, id3 uint32
	var same bool
	var pan interface{}
	func() {
		defer func() { pan = recover() }()
		id = c1.ComputeId(a)
		id2 = c1.ComputeId(a)
		id3 = c2.ComputeId(a)
		same = c1.SameShard(a, a)
	}()
	if pan != nil {
		report("C11:compute-id-panic", fmt.Sprintf("ComputeId/SameShard panics for N=%d address %x: %v", n, a, pan))
		return id
	}
	if id2 != id {
		report("C11:not-deterministic", fmt.Sprintf("N=%d address %x: %d then %d", n, a, id, id2))
	}
	if id3 != id {
		report("C11:not-deterministic", fmt.Sprintf("N=%d address %x: instance self=%d says %d, instance self=%d says %d", n, a, c1.SelfId(), id, c2.SelfId(), id3))
	}
	shaped := verifC11IsMetaSC(a)
	switch {
	case id == core.MetachainShardId:
		if !shaped {
			report("C11:metachain-for-ordinary-address", fmt.Sprintf("N=%d address %x (len %d) is not a metachain system-SC address but maps to the metachain", n, a, len(a)))
		}
	case id < n:
		if shaped {
			report("C11:system-sc-not-on-metachain", fmt.Sprintf("N=%d metachain system-SC shaped address %x maps to shard %d", n, a, id))
		}
	default:
		report("C11:invalid-shard", fmt.Sprintf("N=%d address %x maps to shard %d which is neither < N nor the metachain", n, a, id))
	}
	if !same {
		report("C11:same-shard-mismatch", fmt.Sprintf("N=%d SameShard(a,a)=false for %x", n, a))
	}
	return id
}

// the masked value (for the non-trivial rule): does the address hit the fallback mask?
func verifC11HitsFallback(n uint32, a []byte) bool {
	if len(a) == 0 || n < 2 {
		return false
	}
	bits := uint(0)
	for (uint32(1) << bits) < n {
		bits++
	}
	return uint32(a[len(a)-1])&((1<<bits)-1) >= n
}

func TestVerifC11_Exhaustive(t *testing.T) {
	p := kit.NewPlain(t, "C11", "exhaustive: N=1..256 x self in {0,N-1,meta} x last byte 0..255 x 15 address shapes (plain, 3 system-SC layouts, 2 ordinary-SC layouts, all-zero, lengths 0,1,10,11,25,26,33); per address: range / metachain-only-if-shaped / determinism over two calls and two instances; SameShard against equality of ids for (a, a with another last byte); non-trivial = masked value >= N (fallback mask) or system-SC shaped")
	defer p.Done()
	report := func(key, msg string) { p.Violation(key, "%s", msg) }
	evals := 0
	for n := uint32(1); n <= core.MaxNumShards; n++ {
		selfs := []uint32{0, n - 1, core.MetachainShardId}
		for si, self := range selfs {
			if si == 1 && n == 1 {
				continue
			}
			c1, err := NewMultiShardCoordinator(n, self)
			if err != nil {
				t.Fatalf("fixture: NewMultiShardCoordinator(%d,%d): %v", n, self, err)
			}
			c2, err := NewMultiShardCoordinator(n, selfs[(si+1)%3])
			if err != nil {
				t.Fatalf("fixture: %v", err)
			}
			for kind := range verifC11ShapeNames {
				for b := 0; b < 256; b++ {
					a := verifC11Shape(kind, byte(b))
					id := verifC11CheckOne(c1, c2, n, a, report)
					evals++
					if verifC11HitsFallback(n, a) || verifC11IsMetaSC(a) {
						p.NonTrivialN(uint64(n)<<32 | uint64(si)<<24 | uint64(kind)<<8 | uint64(b))
						if si == 0 && (n == 3 || n == 200) && (b == 0xff || b == 0x07) {
							p.Sample("N=%d shape=%s last=%#x -> shard %d", n, verifC11ShapeNames[kind], b, id)
						}
					}
					if len(a) == 0 {
						break // no last byte dimension
					}
					// SameShard against a sibling with another last byte (same shape)
					a2 := verifC11Shape(kind, byte(b*7+3))
					id2 := c1.ComputeId(a2)
					if c1.SameShard(a, a2) != (id == id2) {
						p.Violation("C11:same-shard-mismatch", "N=%d SameShard(%x,%x)=%v but shards are %d and %d", n, a, a2, c1.SameShard(a, a2), id, id2)
					}
				}
			}
		}
	}
	p.Eval(evals)
	p.Exhaustive()
}

func TestVerifC11_TopicTable(t *testing.T) {
	p := kit.NewPlain(t, "C11", "exhaustive: all ordered pairs over {0..255, meta} (257^2) through coordinators with 256 shards; identifier symmetric, equal to core.CommunicationIdentifierBetweenShards, and injective on the 33153 unordered pairs; pairs with AllShardId excluded (broadcast marker); every pair is non-trivial")
	defer p.Done()
	n := uint32(core.MaxNumShards)
	ids := make([]uint32, 0, n+1)
	for i := uint32(0); i < n; i++ {
		ids = append(ids, i)
	}
	ids = append(ids, core.MetachainShardId)
	coords := make(map[uint32]Coordinator)
	for _, s := range ids {
		c, err := NewMultiShardCoordinator(n, s)
		if err != nil {
			t.Fatalf("fixture: %v", err)
		}
		coords[s] = c
	}
	type pair struct{ lo, hi uint32 }
	seen := make(map[string]pair)
	evals := 0
	for i, s1 := range ids {
		for j, s2 := range ids {
			id12 := coords[s1].CommunicationIdentifier(s2)
			id21 := coords[s2].CommunicationIdentifier(s1)
			evals++
			if id12 != id21 {
				p.Violation("C11:topic-not-symmetric", "identifier(%d,%d)=%q but identifier(%d,%d)=%q", s1, s2, id12, s2, s1, id21)
			}
			if d := core.CommunicationIdentifierBetweenShards(s1, s2); d != id12 {
				p.Violation("C11:topic-not-deterministic", "coordinator says %q, core function says %q for (%d,%d)", id12, d, s1, s2)
			}
			if id12 == "" {
				p.Violation("C11:topic-collision", "empty identifier for (%d,%d)", s1, s2)
			}
			pr := pair{s1, s2}
			if i > j {
				pr = pair{s2, s1}
			}
			if old, ok := seen[id12]; ok && old != pr {
				p.Violation("C11:topic-collision", "identifier %q names both (%d,%d) and (%d,%d)", id12, old.lo, old.hi, pr.lo, pr.hi)
			}
			seen[id12] = pr
			p.NonTrivialN(uint64(i)<<16 | uint64(j))
		}
	}
	if len(seen) != len(ids)*(len(ids)+1)/2 {
		p.Violation("C11:topic-collision", "%d distinct identifiers for %d unordered pairs", len(seen), len(ids)*(len(ids)+1)/2)
	}
	// smaller shard counts use a subset of the same table; check they produce the same strings
	for _, m := range []uint32{1, 2, 3, 10, 11, 100, 101} {
		for _, self := range []uint32{0, m - 1, core.MetachainShardId} {
			c, err := NewMultiShardCoordinator(m, self)
			if err != nil {
				t.Fatalf("fixture: %v", err)
			}
			for d := uint32(0); d < m; d++ {
				evals++
				if got, want := c.CommunicationIdentifier(d), coords[self].CommunicationIdentifier(d); got != want {
					p.Violation("C11:topic-not-deterministic", "N=%d (%d,%d): %q, N=256: %q", m, self, d, got, want)
				}
			}
		}
	}
	p.Sample("identifier(3,12)=%q identifier(meta,0)=%q identifier(7,7)=%q", coords[3].CommunicationIdentifier(12), coords[core.MetachainShardId].CommunicationIdentifier(0), coords[7].CommunicationIdentifier(7))
	p.Eval(evals)
	p.Exhaustive()
}

func verifC11GenAddr(rt *rapid.T, label string) []byte {
	l := 0
	switch rapid.IntRange(0, 9).Draw(rt, label+"LenKind") {
	case 0:
		l = rapid.SampledFrom([]int{0, 1, 2, 9, 10, 11, 24, 25, 26, 27, 31, 33, 64}).Draw(rt, label+"LenB")
	case 1, 2, 3:
		l = rapid.IntRange(0, 64).Draw(rt, label+"Len")
	default:
		l = 32
	}
	a := make([]byte, l)
	kind := rapid.IntRange(0, 5).Draw(rt, label+"Kind")
	switch kind {
	case 0: // random
		copy(a, rapid.SliceOfN(rapid.Byte(), l, l).Draw(rt, label+"Bytes"))
	case 1: // zeros
	case 2: // system SC layout with random vm type and tail
		copy(a, rapid.SliceOfN(rapid.Byte(), l, l).Draw(rt, label+"Bytes"))
		for i := 0; i < l && i < 25; i++ {
			if i != 8 && i != 9 {
				a[i] = 0
			}
		}
	case 3: // ordinary SC: 8 zero bytes then random
		copy(a, rapid.SliceOfN(rapid.Byte(), l, l).Draw(rt, label+"Bytes"))
		for i := 0; i < l && i < 8; i++ {
			a[i] = 0
		}
	case 4: // sparse: zeros with one drawn non-zero byte somewhere
		if l > 0 {
			a[rapid.IntRange(0, l-1).Draw(rt, label+"Pos")] = rapid.ByteRange(1, 255).Draw(rt, label+"Val")
		}
	case 5: // all ff
		for i := range a {
			a[i] = 0xff
		}
	}
	if l > 0 && rapid.IntRange(0, 2).Draw(rt, label+"LastKind") == 0 {
		a[l-1] = rapid.SampledFrom([]byte{0xff, 0x00, 0x7f, 0x80, 0xfe}).Draw(rt, label+"Last")
	}
	return a
}

func TestVerifC11_Generated(t *testing.T) {
	kit.Run(t, "C11", kit.Budget{Quick: 200000, Thorough: 3000000},
		"N drawn 1..256 (biased to non-powers of two and 255/256), two addresses of length 0..64 (random, zero, system-SC layout, ordinary SC, sparse, all-ff; last byte biased to ff/00/7f/80/fe), second address = first / first with another last byte / independent; range, metachain-only-if-shaped, determinism, SameShard == (id equal); non-trivial = fallback mask hit or system-SC shaped; distinct by (N, addresses)",
		func(rt *rapid.T, c *kit.Case) {
			var n uint32
			if rapid.IntRange(0, 3).Draw(rt, "nKind") == 0 {
				n = rapid.SampledFrom([]uint32{1, 2, 3, 5, 7, 9, 127, 129, 255, 256}).Draw(rt, "nB")
			} else {
				n = rapid.Uint32Range(1, core.MaxNumShards).Draw(rt, "n")
			}
			self1 := rapid.Uint32Range(0, n-1).Draw(rt, "self1")
			self2 := core.MetachainShardId
			if rapid.Bool().Draw(rt, "self2shard") {
				self2 = rapid.Uint32Range(0, n-1).Draw(rt, "self2")
			}
			c1, err := NewMultiShardCoordinator(n, self1)
			if err != nil {
				rt.Fatalf("fixture: %v", err)
			}
			c2, err := NewMultiShardCoordinator(n, self2)
			if err != nil {
				rt.Fatalf("fixture: %v", err)
			}
			a := verifC11GenAddr(rt, "a")
			var b []byte
			switch rapid.IntRange(0, 3).Draw(rt, "bKind") {
			case 0:
				b = append([]byte{}, a...)
				c.Class("pair:equal")
			case 1:
				b = append([]byte{}, a...)
				if len(b) > 0 {
					b[len(b)-1] = rapid.Byte().Draw(rt, "bLast")
				}
				c.Class("pair:sibling")
			default:
				b = verifC11GenAddr(rt, "b")
				c.Class("pair:independent")
			}
			report := func(key, msg string) { c.Violation(key, "%s", msg) }
			ida := verifC11CheckOne(c1, c2, n, a, report)
			idb := verifC11CheckOne(c1, c2, n, b, report)
			var same, same2 bool
			c.NoPanic("C11:same-shard-panic", func() { same = c1.SameShard(a, b); same2 = c2.SameShard(b, a) })
			if same != (ida == idb) || same2 != same {
				c.Violation("C11:same-shard-mismatch", "N=%d SameShard(%x,%x)=%v/%v but shards are %d and %d", n, a, b, same, same2, ida, idb)
			}
			if ida == core.MetachainShardId || idb == core.MetachainShardId {
				c.Class("metachain")
			}
			if verifC11HitsFallback(n, a) || verifC11HitsFallback(n, b) || verifC11IsMetaSC(a) || verifC11IsMetaSC(b) {
				c.NonTrivial(fmt.Sprintf("%d %x %x", n, a, b))
				c.Sample("N=%d a=%x -> %d, b=%x -> %d, same=%v", n, a, ida, b, idb, same)
			}
		})
}

// Regression table: real system smart contract addresses (vm/address.go layout) and boundary addresses.
func TestVerifC11_Regress(t *testing.T) {
	kit.Silence()
	staking := append(make([]byte, 9), 1)
	staking = append(staking, make([]byte, 19)...)
	staking = append(staking, 1, 0xff, 0xff)
	if len(staking) != 32 {
		t.Fatalf("fixture: staking address has %d bytes", len(staking))
	}
	for _, n := range []uint32{1, 2, 3, 7, 255, 256} {
		c1, _ := NewMultiShardCoordinator(n, 0)
		c2, _ := NewMultiShardCoordinator(n, core.MetachainShardId)
		report := func(key, msg string) { kit.FailPlain(t, "C11", key, "%s", msg) }
		if id := verifC11CheckOne(c1, c2, n, staking, report); id != core.MetachainShardId {
			kit.FailPlain(t, "C11", "C11:system-sc-not-on-metachain", "staking SC address maps to %d with N=%d", id, n)
		}
		verifC11CheckOne(c1, c2, n, bytes.Repeat([]byte{0xff}, 32), report)
		verifC11CheckOne(c1, c2, n, nil, report)
		verifC11CheckOne(c1, c2, n, []byte{0xff}, report)
	}
}
