package sharding

import (
	"encoding/binary"
	"fmt"
	"sort"
	"strings"

	"github.com/ElrondNetwork/elrond-go/config"
	"github.com/ElrondNetwork/elrond-go/core"
	kit "github.com/ElrondNetwork/elrond-go/verifkit"
	"pgregory.net/rapid"
)

// Shared shuffler-input generator ("SG" of DESIGN.md) for C12, C13, C14.

type verifSHAVal struct {
	pk      string
	chances uint32
	index   uint32
}

// verifSHAInput is a value-level description of one UpdateNodeLists call. Validator objects and maps are built
// freshly from it for every call (build), so the implementation can never share state between calls.
type verifSHAInput struct {
	nbShards   uint32
	shardIDs   []uint32 // 0..nbShards-1, then metachain
	args       NodesShufflerArgs
	epoch      uint32
	eligible   map[uint32][]verifSHAVal // lookups only; iteration goes through shardIDs
	waiting    map[uint32][]verifSHAVal
	emptyAsKey map[uint32]bool // an empty eligible/waiting list is present as an empty slice (true) or absent
	newNodes   []verifSHAVal
	unstake    []verifSHAVal
	additional []verifSHAVal
	rand       []byte
	// description of the leaving lists
	unknownLeaving int
	dupLeaving     int
}

type verifSHAMode int

const (
	verifSHAGeneral verifSHAMode = iota
	// C14 precondition by construction: waiting-list fix active, every shard holds >= its minimum (eligible + waiting;
	// the eligible list may be empty or absent), leaving drawn aggressively
	verifSHAMinSize
	// C13: same domain as general, biased to 3-4 shards and to leaving validators spread over shards
	verifSHAManyShards
)

func verifSHAKey(salt uint32, i int) string {
	b := make([]byte, 8)
	binary.BigEndian.PutUint32(b, salt)
	binary.BigEndian.PutUint32(b[4:], uint32(i))
	return string(b)
}

func verifSHAGen(rt *rapid.T, mode verifSHAMode) *verifSHAInput {
	in := &verifSHAInput{eligible: map[uint32][]verifSHAVal{}, waiting: map[uint32][]verifSHAVal{}, emptyAsKey: map[uint32]bool{}}
	// thorough tier: one case in eight is "big" (up to 8 shards, minimum up to 18, lists three times as long)
	scale := 1
	if kit.Thorough() && rapid.IntRange(0, 7).Draw(rt, "big") == 0 {
		scale = 3
	}
	if mode == verifSHAManyShards {
		in.nbShards = rapid.SampledFrom([]uint32{1, 2, 3, 3, 3, 4, 4, 4}).Draw(rt, "nbShards")
	} else {
		in.nbShards = rapid.Uint32Range(1, 4).Draw(rt, "nbShards")
	}
	if scale > 1 {
		in.nbShards = rapid.Uint32Range(1, 8).Draw(rt, "nbShardsBig")
	}
	for s := uint32(0); s < in.nbShards; s++ {
		in.shardIDs = append(in.shardIDs, s)
	}
	in.shardIDs = append(in.shardIDs, core.MetachainShardId)

	in.args.NodesShard = rapid.Uint32Range(1, uint32(6*scale)).Draw(rt, "nodesShard")
	in.args.NodesMeta = rapid.Uint32Range(1, uint32(6*scale)).Draw(rt, "nodesMeta")
	in.args.Hysteresis = rapid.SampledFrom([]float32{0, 0.2, 1}).Draw(rt, "hysteresis")
	// Adaptivity comes from nodesSetup.json ("adaptivity", factory/coreComponents.go passes GetAdaptivity() to the
	// shuffler). With it UpdateNodeLists goes through splitShards / mergeShards whenever computeNewShards sees the
	// node count cross a threshold; both are "not implemented" stubs that must keep the configuration. Drawn in the
	// general mode only (C12); the C13 / C14 modes keep it off.
	in.args.Adaptivity = false
	if mode == verifSHAGeneral {
		in.args.Adaptivity = rapid.IntRange(0, 2).Draw(rt, "adaptivity") == 0
	}
	in.args.ShuffleBetweenShards = rapid.Bool().Draw(rt, "shuffleBetweenShards")
	nCfg := rapid.IntRange(0, 2).Draw(rt, "nMaxNodesCfg")
	for i := 0; i < nCfg; i++ {
		in.args.MaxNodesEnableConfig = append(in.args.MaxNodesEnableConfig, config.MaxNodesChangeConfig{
			EpochEnable:            rapid.Uint32Range(0, 9).Draw(rt, "cfgEpoch"),
			MaxNumNodes:            rapid.Uint32Range(0, 100).Draw(rt, "cfgMaxNodes"),
			NodesToShufflePerShard: rapid.Uint32Range(0, uint32(6*scale)).Draw(rt, "cfgToShuffle"),
		})
	}
	in.args.BalanceWaitingListsEnableEpoch = rapid.SampledFrom([]uint32{0, 5}).Draw(rt, "balanceEpoch")
	in.args.WaitingListFixEnableEpoch = rapid.SampledFrom([]uint32{0, 5}).Draw(rt, "fixEpoch")
	in.epoch = rapid.Uint32Range(0, 9).Draw(rt, "epoch")
	if mode == verifSHAMinSize && in.epoch < in.args.WaitingListFixEnableEpoch {
		in.epoch = in.args.WaitingListFixEnableEpoch + in.epoch%5
	}

	salt := rapid.Uint32().Draw(rt, "keySalt")
	next := 0
	newVal := func() verifSHAVal {
		v := verifSHAVal{pk: verifSHAKey(salt, next), chances: rapid.Uint32Range(1, 10).Draw(rt, "chances"), index: uint32(next)}
		next++
		return v
	}
	for _, s := range in.shardIDs {
		min := int(in.args.NodesShard)
		if s == core.MetachainShardId {
			min = int(in.args.NodesMeta)
		}
		var ne, nw int
		sizeKind := rapid.IntRange(0, 9).Draw(rt, "sizeKind")
		if mode == verifSHAMinSize && sizeKind == 0 {
			sizeKind = 1
		}
		switch {
		case sizeKind == 0: // anything, may be below the minimum (clean reject)
			ne = rapid.IntRange(0, 8*scale).Draw(rt, "ne")
			nw = rapid.IntRange(0, 6*scale).Draw(rt, "nw")
		case sizeKind <= 3: // exactly at the minimum
			ne = rapid.IntRange(0, min).Draw(rt, "ne")
			nw = min - ne
		default: // minimum + extra, split drawn
			total := min + rapid.IntRange(0, 8*scale).Draw(rt, "extra")
			if total > 14*scale {
				total = 14 * scale
			}
			lo := total - 6*scale
			if lo < 0 {
				lo = 0
			}
			hi := total
			if hi > 8*scale {
				hi = 8 * scale
			}
			ne = rapid.IntRange(lo, hi).Draw(rt, "ne")
			nw = total - ne
		}
		for i := 0; i < ne; i++ {
			in.eligible[s] = append(in.eligible[s], newVal())
		}
		for i := 0; i < nw; i++ {
			in.waiting[s] = append(in.waiting[s], newVal())
		}
		in.emptyAsKey[s] = rapid.Bool().Draw(rt, "emptyAsKey")
	}
	nNew := rapid.IntRange(0, 5*scale).Draw(rt, "nNew")
	for i := 0; i < nNew; i++ {
		in.newNodes = append(in.newNodes, newVal())
	}

	// leaving lists
	var known []verifSHAVal
	var perShard [][]verifSHAVal
	for _, s := range in.shardIDs {
		l := append(append([]verifSHAVal{}, in.eligible[s]...), in.waiting[s]...)
		known = append(known, l...)
		if len(l) > 0 {
			perShard = append(perShard, l)
		}
	}
	drawList := func(label string) []verifSHAVal {
		var out []verifSHAVal
		if len(known) == 0 {
			return out
		}
		kind := rapid.IntRange(0, 9).Draw(rt, label+"Kind")
		if mode == verifSHAMinSize && kind <= 1 {
			kind = 5 + kind
		}
		if mode == verifSHAManyShards && (kind <= 1 || kind == 5) {
			kind = 7
		}
		pool := append([]verifSHAVal{}, known...)
		switch {
		case kind <= 1: // none
			return out
		case kind <= 4: // a few, spread
		case kind <= 6: // concentrated on one shard, up to all of it
			pool = append([]verifSHAVal{}, perShard[rapid.IntRange(0, len(perShard)-1).Draw(rt, label+"Shard")]...)
		default: // many, up to everybody
		}
		max := len(pool)
		if kind <= 4 && max > 4 {
			max = 4
		}
		k := rapid.IntRange(0, max).Draw(rt, label+"Count")
		if kind >= 5 && rapid.IntRange(0, 2).Draw(rt, label+"All") == 0 {
			k = len(pool)
		}
		for i := 0; i < k; i++ {
			j := rapid.IntRange(0, len(pool)-1).Draw(rt, label+"Pick")
			out = append(out, pool[j])
			pool[j] = pool[len(pool)-1]
			pool = pool[:len(pool)-1]
		}
		return out
	}
	in.unstake = drawList("unstake")
	in.additional = drawList("additional")

	if mode != verifSHAMinSize || rapid.IntRange(0, 3).Draw(rt, "dirtyLeaving") == 0 {
		// duplicates within a list, duplicates across the lists, keys unknown to eligible/waiting
		if rapid.IntRange(0, 3).Draw(rt, "dupWithin") == 0 {
			for _, l := range []*[]verifSHAVal{&in.unstake, &in.additional} {
				if len(*l) > 0 && rapid.Bool().Draw(rt, "dupThis") {
					n := rapid.IntRange(1, 2).Draw(rt, "dupN")
					for i := 0; i < n; i++ {
						v := (*l)[rapid.IntRange(0, len(*l)-1).Draw(rt, "dupSrc")]
						pos := rapid.IntRange(0, len(*l)).Draw(rt, "dupPos")
						*l = append((*l)[:pos], append([]verifSHAVal{v}, (*l)[pos:]...)...)
						in.dupLeaving++
					}
				}
			}
		}
		if len(in.unstake) > 0 && rapid.IntRange(0, 3).Draw(rt, "dupAcross") == 0 {
			n := rapid.IntRange(1, 3).Draw(rt, "dupAcrossN")
			for i := 0; i < n; i++ {
				v := in.unstake[rapid.IntRange(0, len(in.unstake)-1).Draw(rt, "dupAcrossSrc")]
				pos := rapid.IntRange(0, len(in.additional)).Draw(rt, "dupAcrossPos")
				in.additional = append(in.additional[:pos], append([]verifSHAVal{v}, in.additional[pos:]...)...)
				in.dupLeaving++
			}
		}
		if rapid.IntRange(0, 3).Draw(rt, "unknown") == 0 {
			n := rapid.IntRange(1, 3).Draw(rt, "unknownN")
			for i := 0; i < n; i++ {
				v := newVal() // a fresh key: in neither eligible, waiting nor new
				l := &in.unstake
				if rapid.Bool().Draw(rt, "unknownInAdditional") {
					l = &in.additional
				}
				pos := rapid.IntRange(0, len(*l)).Draw(rt, "unknownPos")
				*l = append((*l)[:pos], append([]verifSHAVal{v}, (*l)[pos:]...)...)
				in.unknownLeaving++
			}
		}
	}
	in.rand = rapid.SliceOfN(rapid.Byte(), 1, 32).Draw(rt, "rand")
	return in
}

func verifSHAMakeVals(l []verifSHAVal) []Validator {
	out := make([]Validator, 0, len(l))
	for _, v := range l {
		val, err := NewValidator([]byte(v.pk), v.chances, v.index)
		if err != nil {
			panic("fixture: NewValidator: " + err.Error())
		}
		out = append(out, val)
	}
	return out
}

// build creates fresh argument maps; shard keys are inserted in the given order (nil = ascending).
func (in *verifSHAInput) build(order []uint32) ArgsUpdateNodes {
	if order == nil {
		order = in.shardIDs
	}
	a := ArgsUpdateNodes{
		Eligible: make(map[uint32][]Validator),
		Waiting:  make(map[uint32][]Validator),
		NbShards: in.nbShards,
		Epoch:    in.epoch,
		Rand:     append([]byte{}, in.rand...),
	}
	for _, s := range order {
		if len(in.eligible[s]) > 0 || in.emptyAsKey[s] {
			a.Eligible[s] = verifSHAMakeVals(in.eligible[s])
		}
	}
	for i := len(order) - 1; i >= 0; i-- {
		s := order[i]
		if len(in.waiting[s]) > 0 || in.emptyAsKey[s] {
			a.Waiting[s] = verifSHAMakeVals(in.waiting[s])
		}
	}
	a.NewNodes = verifSHAMakeVals(in.newNodes)
	a.UnStakeLeaving = verifSHAMakeVals(in.unstake)
	a.AdditionalLeaving = verifSHAMakeVals(in.additional)
	return a
}

func (in *verifSHAInput) shuffler() (NodesShuffler, error) {
	args := in.args
	args.MaxNodesEnableConfig = append([]config.MaxNodesChangeConfig{}, in.args.MaxNodesEnableConfig...)
	return NewHashValidatorsShuffler(&args)
}

// reshard re-derives, for classification only, which branch computeNewShards selects: +1 split, -1 merge, 0 none
// (node count of the new epoch = eligible + waiting + new - leaving requests, as an uint32).
func (in *verifSHAInput) reshard() int {
	if !in.args.Adaptivity {
		return 0
	}
	n := len(in.newNodes) - len(in.unstake)
	// the shuffler removes from the additional list what is in the unstake list before counting
	inUnstake := map[string]bool{}
	for _, v := range in.unstake {
		inUnstake[v.pk] = true
	}
	for _, v := range in.additional {
		if !inUnstake[v.pk] {
			n--
		}
	}
	for _, s := range in.shardIDs {
		if len(in.eligible[s]) > 0 || in.emptyAsKey[s] {
			n += len(in.eligible[s]) + len(in.waiting[s])
		}
	}
	nodes := uint32(n)
	hS := uint32(float32(in.args.NodesShard) * in.args.Hysteresis)
	hM := uint32(float32(in.args.NodesMeta) * in.args.Hysteresis)
	if nodes > (in.nbShards+1)*(in.args.NodesShard+hS)+in.args.NodesMeta+hM {
		if (nodes-(in.args.NodesMeta+hM))/(in.args.NodesShard+hS) > in.nbShards {
			return 1
		}
		return 0
	}
	if nodes < in.nbShards*in.args.NodesShard+in.args.NodesMeta {
		return -1
	}
	return 0
}

func (in *verifSHAInput) fixActive() bool { return in.epoch >= in.args.WaitingListFixEnableEpoch }
func (in *verifSHAInput) balanceActive() bool {
	return in.epoch >= in.args.BalanceWaitingListsEnableEpoch
}

func (in *verifSHAInput) minOf(s uint32) int {
	if s == core.MetachainShardId {
		return int(in.args.NodesMeta)
	}
	return int(in.args.NodesShard)
}

// maxSwap re-derives the active NodesToShufflePerShard from the documented rule (last config, ordered by
// enable epoch, whose epoch has been reached; default = NodesShard). Used only for classification.
func (in *verifSHAInput) maxSwap() int {
	cfgs := append([]config.MaxNodesChangeConfig{}, in.args.MaxNodesEnableConfig...)
	sort.SliceStable(cfgs, func(i, j int) bool { return cfgs[i].EpochEnable < cfgs[j].EpochEnable })
	r := int(in.args.NodesShard)
	for _, c := range cfgs {
		if in.epoch >= c.EpochEnable {
			r = int(c.NodesToShufflePerShard)
		}
	}
	return r
}

func verifSHAShardName(s uint32) string {
	if s == core.MetachainShardId {
		return "meta"
	}
	return fmt.Sprint(s)
}

func verifSHAKeys(l []verifSHAVal) string {
	parts := make([]string, len(l))
	for i, v := range l {
		parts[i] = fmt.Sprintf("%x", v.pk[4:])
	}
	return "[" + strings.Join(parts, " ") + "]"
}

// String writes the input out in full (for counterexamples).
func (in *verifSHAInput) String() string {
	var sb strings.Builder
	fmt.Fprintf(&sb, "nbShards=%d nodesShard=%d nodesMeta=%d hyst=%v adaptivity=%v betweenShards=%v maxNodesCfg=%v balanceEpoch=%d fixEpoch=%d epoch=%d rand=%x;",
		in.nbShards, in.args.NodesShard, in.args.NodesMeta, in.args.Hysteresis, in.args.Adaptivity, in.args.ShuffleBetweenShards, in.args.MaxNodesEnableConfig,
		in.args.BalanceWaitingListsEnableEpoch, in.args.WaitingListFixEnableEpoch, in.epoch, in.rand)
	for _, s := range in.shardIDs {
		fmt.Fprintf(&sb, " shard %s: eligible=%s waiting=%s emptyAsKey=%v;", verifSHAShardName(s), verifSHAKeys(in.eligible[s]), verifSHAKeys(in.waiting[s]), in.emptyAsKey[s])
	}
	fmt.Fprintf(&sb, " new=%s unstakeLeaving=%s additionalLeaving=%s", verifSHAKeys(in.newNodes), verifSHAKeys(in.unstake), verifSHAKeys(in.additional))
	return sb.String()
}

// shape is the canonical key for distinct counting: sizes vector, flags, leaving shape.
func (in *verifSHAInput) shape() string {
	var sb strings.Builder
	fmt.Fprintf(&sb, "%d/%d/%d/%v/%d/%v/%v/%d|", in.nbShards, in.args.NodesShard, in.args.NodesMeta, in.args.ShuffleBetweenShards, in.maxSwap(), in.fixActive(), in.balanceActive(), in.reshard())
	where := map[string]string{}
	for _, s := range in.shardIDs {
		fmt.Fprintf(&sb, "%d+%d,", len(in.eligible[s]), len(in.waiting[s]))
		for i, v := range in.eligible[s] {
			where[v.pk] = fmt.Sprintf("e%s.%d", verifSHAShardName(s), i)
		}
		for i, v := range in.waiting[s] {
			where[v.pk] = fmt.Sprintf("w%s.%d", verifSHAShardName(s), i)
		}
	}
	fmt.Fprintf(&sb, "|%d|", len(in.newNodes))
	for _, l := range [][]verifSHAVal{in.unstake, in.additional} {
		for _, v := range l {
			w, ok := where[v.pk]
			if !ok {
				w = "?"
			}
			sb.WriteString(w + ",")
		}
		sb.WriteString("|")
	}
	return sb.String()
}

// verifSHAResult is the value-level view of a ResUpdateNodes.
type verifSHAResult struct {
	err            string
	eligible       map[uint32][]string
	waiting        map[uint32][]string
	leaving        []string
	stillRemaining []string
}

func verifSHAPks(l []Validator) []string {
	out := make([]string, len(l))
	for i, v := range l {
		out[i] = string(v.PubKey())
	}
	return out
}

func verifSHAView(res *ResUpdateNodes, err error) *verifSHAResult {
	r := &verifSHAResult{eligible: map[uint32][]string{}, waiting: map[uint32][]string{}}
	if err != nil {
		r.err = err.Error()
		return r
	}
	for s, l := range res.Eligible {
		r.eligible[s] = verifSHAPks(l)
	}
	for s, l := range res.Waiting {
		r.waiting[s] = verifSHAPks(l)
	}
	r.leaving = verifSHAPks(res.Leaving)
	r.stillRemaining = verifSHAPks(res.StillRemaining)
	return r
}

func verifSHASortedShards(m map[uint32][]string) []uint32 {
	ks := make([]uint32, 0, len(m))
	for k := range m {
		ks = append(ks, k)
	}
	sort.Slice(ks, func(i, j int) bool { return ks[i] < ks[j] })
	return ks
}

func verifSHAShort(l []string) string {
	parts := make([]string, len(l))
	for i, k := range l {
		if len(k) == 8 {
			parts[i] = fmt.Sprintf("%x", k[4:])
		} else {
			parts[i] = fmt.Sprintf("%x", k)
		}
	}
	return "[" + strings.Join(parts, " ") + "]"
}

// canon renders a result including the order inside every list. Empty and absent per-shard lists are not
// distinguished (both hold no validator).
func (r *verifSHAResult) canon() string {
	if r.err != "" {
		return "error: " + r.err
	}
	var sb strings.Builder
	for _, s := range verifSHASortedShards(r.eligible) {
		if len(r.eligible[s]) > 0 {
			fmt.Fprintf(&sb, "E%s=%s ", verifSHAShardName(s), verifSHAShort(r.eligible[s]))
		}
	}
	for _, s := range verifSHASortedShards(r.waiting) {
		if len(r.waiting[s]) > 0 {
			fmt.Fprintf(&sb, "W%s=%s ", verifSHAShardName(s), verifSHAShort(r.waiting[s]))
		}
	}
	fmt.Fprintf(&sb, "leaving=%s stillRemaining=%s", verifSHAShort(r.leaving), verifSHAShort(r.stillRemaining))
	return sb.String()
}

// verifSHAFixed builds a hand-written input: sizes[i] = {eligible, waiting} of shard i (last entry = metachain);
// keys are numbered consecutively shard by shard (eligible first), then the new nodes. unstake/additional hold key
// numbers; numbers >= the total are unknown keys.
func verifSHAFixed(nodesShard, nodesMeta uint32, sizes [][2]int, nNew int, unstake, additional []int, fixEpoch, epoch uint32, between bool) *verifSHAInput {
	in := &verifSHAInput{eligible: map[uint32][]verifSHAVal{}, waiting: map[uint32][]verifSHAVal{}, emptyAsKey: map[uint32]bool{}}
	in.nbShards = uint32(len(sizes) - 1)
	for s := uint32(0); s < in.nbShards; s++ {
		in.shardIDs = append(in.shardIDs, s)
	}
	in.shardIDs = append(in.shardIDs, core.MetachainShardId)
	in.args = NodesShufflerArgs{NodesShard: nodesShard, NodesMeta: nodesMeta, Hysteresis: 0.2, ShuffleBetweenShards: between, WaitingListFixEnableEpoch: fixEpoch}
	in.epoch = epoch
	next := 0
	val := func(i int) verifSHAVal {
		return verifSHAVal{pk: verifSHAKey(0xabcdef01, i), chances: 1, index: uint32(i)}
	}
	for i, s := range in.shardIDs {
		for j := 0; j < sizes[i][0]; j++ {
			in.eligible[s] = append(in.eligible[s], val(next))
			next++
		}
		for j := 0; j < sizes[i][1]; j++ {
			in.waiting[s] = append(in.waiting[s], val(next))
			next++
		}
		in.emptyAsKey[s] = true
	}
	for j := 0; j < nNew; j++ {
		in.newNodes = append(in.newNodes, val(next))
		next++
	}
	for _, k := range unstake {
		in.unstake = append(in.unstake, val(k))
		if k >= next {
			in.unknownLeaving++
		}
	}
	for _, k := range additional {
		in.additional = append(in.additional, val(k))
		if k >= next {
			in.unknownLeaving++
		}
	}
	in.rand = []byte{1, 2, 3}
	return in
}
