package sharding

import (
	"fmt"
	"testing"

	kit "github.com/ElrondNetwork/elrond-go/verifkit"
	"pgregory.net/rapid"
)

// C13: Validator reshuffling is deterministic (independent of map iteration order and of how the maps are built).

const verifC13Repeats = 12

// verifC13Eval performs one evaluation on freshly built maps (shard keys inserted in the given order) with a
// fresh shuffler instance.
func verifC13Eval(rt *rapid.T, c *kit.Case, in *verifSHAInput, order []uint32) string {
	sh, err := in.shuffler()
	if err != nil {
		rt.Fatalf("fixture: NewHashValidatorsShuffler: %v", err)
	}
	var res *ResUpdateNodes
	c.NoPanic("C13:update-node-lists-panic", func() { res, err = sh.UpdateNodeLists(in.build(order)) })
	return verifSHAView(res, err).canon()
}

func TestVerifC13_Deterministic(t *testing.T) {
	kit.Run(t, "C13", kit.Budget{Quick: 4000, Thorough: 40000},
		fmt.Sprintf("SG input (see C12); UpdateNodeLists is evaluated %d times, each on freshly built maps whose shard keys are inserted in a drawn permutation (eligible in that order, waiting in the reverse order) and with a fresh shuffler; additionally one shuffler instance is reused for two calls; all results must be equal including the order inside every list, Leaving and StillRemaining (or the same error); non-trivial = >=3 shards + meta, leaving validators in >=2 shards, new nodes present; distinct by (sizes, flags, leaving shape)", verifC13Repeats),
		func(rt *rapid.T, c *kit.Case) {
			in := verifSHAGen(rt, verifSHAManyShards)
			first := verifC13Eval(rt, c, in, nil)
			for i := 1; i < verifC13Repeats; i++ {
				order := rapid.Permutation(in.shardIDs).Draw(rt, "order")
				got := verifC13Eval(rt, c, in, order)
				if got != first {
					c.Violation("C13:result-differs-between-evaluations", "evaluation 1 (ascending insertion) and evaluation %d (insertion order %v) of the same input differ:\n  first: %s\n  later: %s\n  input: %s", i+1, order, first, got, in.String())
				}
			}
			// one instance used twice (the instance keeps the epoch flags between calls)
			sh, err := in.shuffler()
			if err != nil {
				rt.Fatalf("fixture: %v", err)
			}
			for i := 0; i < 2; i++ {
				var res *ResUpdateNodes
				c.NoPanic("C13:update-node-lists-panic", func() { res, err = sh.UpdateNodeLists(in.build(nil)) })
				if got := verifSHAView(res, err).canon(); got != first {
					c.Violation("C13:result-differs-between-evaluations", "call %d on a reused shuffler differs from a fresh one:\n  fresh: %s\n  reused: %s\n  input: %s", i+1, first, got, in.String())
				}
			}
			if len(first) > 6 && first[:6] == "error:" {
				c.Class("rejected:shard-below-minimum")
				return
			}
			leavingShards := map[uint32]bool{}
			for _, s := range in.shardIDs {
				for _, l := range [][]verifSHAVal{in.eligible[s], in.waiting[s]} {
					for _, v := range l {
						for _, lv := range [][]verifSHAVal{in.unstake, in.additional} {
							for _, x := range lv {
								if x.pk == v.pk {
									leavingShards[s] = true
								}
							}
						}
					}
				}
			}
			if in.args.ShuffleBetweenShards {
				c.Class("cross-shard-distribution")
			}
			if len(leavingShards) >= 2 {
				c.Class("leaving-in->=2-shards")
			}
			if in.nbShards >= 3 && len(leavingShards) >= 2 && len(in.newNodes) > 0 {
				c.NonTrivial(in.shape())
				c.Sample("%s => %s", in.String(), first)
			}
		})
}

// Regression table: fixed inputs evaluated 60 times with rotating insertion orders.
func TestVerifC13_Regress(t *testing.T) {
	kit.Silence()
	cases := []*verifSHAInput{
		verifSHAFixed(2, 2, [][2]int{{3, 2}, {3, 2}, {3, 2}, {3, 2}}, 4, []int{0, 5, 10, 15, 3, 8}, []int{1, 6, 11, 16}, 0, 1, true),
		verifSHAFixed(2, 2, [][2]int{{3, 2}, {3, 2}, {3, 2}, {3, 2}}, 4, []int{0, 5, 10, 15, 3, 8}, []int{1, 6, 11, 16}, 5, 1, false),
		verifSHAFixed(3, 3, [][2]int{{3, 0}, {4, 1}, {3, 3}, {2, 2}, {3, 1}}, 5, []int{0, 1, 2, 3, 7, 8, 9, 14, 16, 19}, nil, 0, 0, true),
	}
	for i, in := range cases {
		first := ""
		for rep := 0; rep < 60; rep++ {
			order := append([]uint32{}, in.shardIDs...)
			for k := range order {
				order[k] = in.shardIDs[(k+rep)%len(order)]
			}
			if rep%2 == 1 {
				for a, b := 0, len(order)-1; a < b; a, b = a+1, b-1 {
					order[a], order[b] = order[b], order[a]
				}
			}
			sh, err := in.shuffler()
			if err != nil {
				t.Fatalf("fixture: %v", err)
			}
			res, err := sh.UpdateNodeLists(in.build(order))
			got := verifSHAView(res, err).canon()
			if rep == 0 {
				first = got
			} else if got != first {
				kit.FailPlain(t, "C13", "C13:result-differs-between-evaluations", "regression case %d: evaluation %d differs:\n  first: %s\n  later: %s\n  input: %s", i, rep+1, first, got, in.String())
			}
		}
	}
}
