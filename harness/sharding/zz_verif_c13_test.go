package sharding

import (
	"fmt"
	"sort"
	"strings"
	"testing"

	"github.com/ElrondNetwork/elrond-go/core"
	"github.com/ElrondNetwork/elrond-go/marshal"
	kit "github.com/ElrondNetwork/elrond-go/verifkit"
	"pgregory.net/rapid"
)

// C13: Validator reshuffling is deterministic (independent of map iteration order and of how the maps are built).

const verifC13Repeats = 10

// verifC13At is the input with another epoch and randomness (same validators, same shuffler arguments).
func verifC13At(in *verifSHAInput, epoch uint32, rand []byte) *verifSHAInput {
	cp := *in
	cp.epoch = epoch
	cp.rand = rand
	return &cp
}

// verifC13StepEpoch draws the epoch of a later call on a long-lived shuffler: anywhere in the range, or right at /
// right before one of the configured enable epochs (both directions of every flag and max-nodes switch).
func verifC13StepEpoch(rt *rapid.T, in *verifSHAInput) uint32 {
	edges := []uint32{in.args.BalanceWaitingListsEnableEpoch, in.args.WaitingListFixEnableEpoch}
	for _, cfg := range in.args.MaxNodesEnableConfig {
		edges = append(edges, cfg.EpochEnable)
	}
	if rapid.Bool().Draw(rt, "stepAtEdge") {
		e := edges[rapid.IntRange(0, len(edges)-1).Draw(rt, "stepEdge")]
		if e > 0 && rapid.Bool().Draw(rt, "stepBeforeEdge") {
			return e - 1
		}
		return e
	}
	return rapid.Uint32Range(0, 9).Draw(rt, "stepEpoch")
}

// verifC13Eval performs one evaluation on freshly built maps (shard keys inserted in the given order) with a
// fresh shuffler instance.
func verifC13Eval(rt *rapid.T, c *kit.Case, in *verifSHAInput, order []uint32) string {
	sh, err := in.shuffler()
	if err != nil {
		rt.Fatalf("fixture: NewHashValidatorsShuffler: %v", err)
	}
	var res *ResUpdateNodes
	c.NoPanic("C13:update-node-lists-panic", func() { res, err = sh.UpdateNodeLists(in.build(order)) })
	return verifSHAView(res, err).canon()
}

func TestVerifC13_Deterministic(t *testing.T) {
	kit.Run(t, "C13", kit.Budget{Quick: 4000, Thorough: 40000},
		fmt.Sprintf("SG input (see C12); UpdateNodeLists is evaluated %d times, each on freshly built maps whose shard keys are inserted in a drawn permutation (eligible in that order, waiting in the reverse order) and with a fresh shuffler; additionally one long-lived shuffler instance serves 2-5 calls (the same input twice, then the same validators with drawn epochs - biased to the enable epochs and the epoch before them, ascending or descending - and fresh randomness), each compared with a fresh shuffler given the same input; all results must be equal including the order inside every list, Leaving and StillRemaining (or the same error); non-trivial = >=3 shards + meta, leaving validators in >=2 shards, new nodes present; distinct by (sizes, flags, leaving shape)", verifC13Repeats),
		func(rt *rapid.T, c *kit.Case) {
			in := verifSHAGen(rt, verifSHAManyShards)
			first := verifC13Eval(rt, c, in, nil)
			for i := 1; i < verifC13Repeats; i++ {
				order := rapid.Permutation(in.shardIDs).Draw(rt, "order")
				got := verifC13Eval(rt, c, in, order)
				if got != first {
					c.Violation("C13:result-differs-between-evaluations", "evaluation 1 (ascending insertion) and evaluation %d (insertion order %v) of the same input differ:\n  first: %s\n  later: %s\n  input: %s", i+1, order, first, got, in.String())
				}
			}
			// one long-lived instance (a node keeps its shuffler for its whole life; the instance keeps the epoch flags
			// and the active max-nodes configuration between calls) against fresh instances (a node that has just
			// started): the same call twice, then calls for other epochs - later and earlier ones - and randomness
			sh, err := in.shuffler()
			if err != nil {
				rt.Fatalf("fixture: %v", err)
			}
			history := []uint32{}
			nSteps := rapid.IntRange(2, 5).Draw(rt, "nSteps")
			wentBack := false
			for i := 0; i < nSteps; i++ {
				step, want := in, first
				if i >= 2 {
					step = verifC13At(in, verifC13StepEpoch(rt, in), rapid.SliceOfN(rapid.Byte(), 1, 32).Draw(rt, "stepRand"))
					want = verifC13Eval(rt, c, step, nil)
				}
				if len(history) > 0 && step.epoch < history[len(history)-1] {
					wentBack = true
				}
				history = append(history, step.epoch)
				var res *ResUpdateNodes
				c.NoPanic("C13:update-node-lists-panic", func() { res, err = sh.UpdateNodeLists(step.build(nil)) })
				if got := verifSHAView(res, err).canon(); got != want {
					c.Violation("C13:result-depends-on-earlier-calls", "call %d on a long-lived shuffler (epochs of its calls so far: %v) differs from a fresh shuffler given the same input:\n  fresh: %s\n  long-lived: %s\n  input: %s", i+1, history, want, got, step.String())
				}
			}
			if wentBack {
				c.Class("long-lived-instance-sees-an-earlier-epoch")
			}
			if len(first) > 6 && first[:6] == "error:" {
				c.Class("rejected:shard-below-minimum")
				return
			}
			leavingShards := map[uint32]bool{}
			for _, s := range in.shardIDs {
				for _, l := range [][]verifSHAVal{in.eligible[s], in.waiting[s]} {
					for _, v := range l {
						for _, lv := range [][]verifSHAVal{in.unstake, in.additional} {
							for _, x := range lv {
								if x.pk == v.pk {
									leavingShards[s] = true
								}
							}
						}
					}
				}
			}
			if in.args.ShuffleBetweenShards {
				c.Class("cross-shard-distribution")
			}
			if len(leavingShards) >= 2 {
				c.Class("leaving-in->=2-shards")
			}
			if in.nbShards >= 3 && len(leavingShards) >= 2 && len(in.newNodes) > 0 {
				c.NonTrivial(in.shape())
				c.Sample("%s => %s", in.String(), first)
			}
		})
}

const verifC13Nodes = 3

// verifC13Config renders the configuration a coordinator holds for an epoch: per shard (ascending) the eligible,
// waiting and leaving lists in order. ok=false: no configuration for the epoch.
func verifC13Config(nc NodesCoordinator, epoch uint32) (canon string, eligible, waiting map[uint32][]string, ok bool) {
	eligible, waiting, ok = verifSHBReadCfg(nc, epoch)
	if !ok {
		return "no configuration", nil, nil, false
	}
	leaving, okL := verifSHBReadLeaving(nc, epoch)
	if !okL {
		return "no configuration", nil, nil, false
	}
	return verifSHBDescribeCfg(eligible, waiting, leaving), eligible, waiting, true
}

// Coordinator level: the lists handed to the shuffler are assembled by the nodes coordinator from the validator
// information of the epoch start block (maps per shard, leaving lists flattened from maps). Several freshly built
// nodes process the same epoch start blocks; their configurations for every new epoch must be identical.
func TestVerifC13_CoordinatorDeterministic(t *testing.T) {
	kit.Run(t, "C13", kit.Budget{Quick: 1500, Thorough: 15000},
		fmt.Sprintf("the multi-epoch fixture of C16 (1-3 shards + meta, min nodes 1..4, with/without rater, intra/cross-shard distributor, validator info derived from the current configuration with leaving (rates 0-90%%, so the removal caps bind) / jailed / new / low-rated entries); %d freshly built coordinators (own shuffler each, different own keys, genesis maps built by ranging over a map) process the same 1-3 epoch start blocks (EpochStartPrepare + EpochStartAction; each node unmarshals its own body); after every block the eligible, waiting and leaving lists per shard of the new epoch, including the order inside every list, must be equal on all nodes (or the epoch refused by all); non-trivial = an epoch change with known leaving validators in >=2 shards (metachain included), at least one of them refused or capped (more leaving than may leave), distinct by the whole history", verifC13Nodes),
		func(rt *rapid.T, c *kit.Case) {
			keys := verifSHBDrawKeyGen(rt)
			s := verifSHBGenSetup(rt, keys)
			selfKeys := []string{s.selfPK, "observer-B", s.initialKeys[len(s.initialKeys)-1]}
			nodes := make([]*verifSHBCoord, verifC13Nodes)
			for i := range nodes {
				co, err := s.Build(selfKeys[i%len(selfKeys)], 0, s.rater)
				if err != nil {
					rt.Fatalf("fixture: %v (%s)", err, s)
				}
				nodes[i] = co
			}
			marsh := &marshal.GogoProtoMarshalizer{}
			var history []string
			ctx := func() string { return s.String() + "\n" + strings.Join(history, "\n") }

			first, eligible, waiting, ok := verifC13Config(nodes[0].NC(), s.e0)
			if !ok {
				rt.Fatalf("fixture: initial epoch has no configuration")
			}
			history = append(history, fmt.Sprintf("epoch %d: %s", s.e0, first))
			prevLeaving := map[string]bool{}
			everPlaced := map[string]bool{}
			cur := s.e0
			nEpochs := rapid.IntRange(1, 3).Draw(rt, "nEpochs")
			for k := 0; k < nEpochs; k++ {
				gone := verifSHBGone(eligible, waiting, everPlaced)
				infos, _ := verifSHBGenInfos(rt, s, keys, eligible, waiting, prevLeaving, gone)
				placed := map[string]bool{}
				for _, m := range []map[uint32][]string{eligible, waiting} {
					for _, l := range m {
						for _, pk := range l {
							placed[pk] = true
						}
					}
				}
				prevLeaving = map[string]bool{}
				leavingShards := map[uint32]int{}
				for _, in := range infos {
					if in.List == string(core.LeavingList) {
						prevLeaving[in.PK] = true
						if placed[in.PK] {
							leavingShards[in.Shard]++
						}
					}
				}
				seed := rapid.SliceOfN(rapid.Byte(), 1, 32).Draw(rt, "prevRandSeed")
				history = append(history, fmt.Sprintf("validator info for epoch %d (rand %x): %s", cur+1, seed, verifSHBDescribeInfos(infos)))
				for _, n := range nodes {
					body, err := verifSHBBody(infos, marsh)
					if err != nil {
						rt.Fatalf("fixture: %v", err)
					}
					hdr := verifSHBEpochStartHeader(cur+1, append([]byte{}, seed...))
					c.NoPanic("C13:epoch-start-prepare-panic", func() {
						n.Base.EpochStartPrepare(hdr, body)
						n.Base.EpochStartAction(hdr)
					})
				}
				var okFirst bool
				first, eligible, waiting, okFirst = verifC13Config(nodes[0].NC(), cur+1)
				for i := 1; i < len(nodes); i++ {
					got, _, _, _ := verifC13Config(nodes[i].NC(), cur+1)
					if got != first {
						c.Violation("C13:coordinator-config-differs", "nodes 1 and %d hold different configurations for epoch %d after the same epoch start block:\n  node 1: %s\n  node %d: %s\n%s", i+1, cur+1, first, i+1, got, ctx())
					}
				}
				if !okFirst {
					// the shuffler (too few nodes) or the coordinator (eligible list below the group size) refused
					c.Class("coordinator:epoch-refused")
					return
				}
				c.Class("coordinator:epoch-ok")
				history = append(history, fmt.Sprintf("epoch %d: %s", cur+1, first))
				cur++
				// leaving validators that are still placed in the new epoch: the removal caps were binding
				stillPlaced := 0
				for _, m := range []map[uint32][]string{eligible, waiting} {
					for _, l := range m {
						for _, pk := range l {
							if prevLeaving[pk] {
								stillPlaced++
							}
						}
					}
				}
				if len(leavingShards) >= 2 {
					c.Class("coordinator:leaving-in->=2-shards")
				}
				if stillPlaced > 0 {
					c.Class("coordinator:binding-removal-cap")
				}
				if len(leavingShards) >= 2 && stillPlaced > 0 {
					c.NonTrivial(ctx())
					c.Sample("%s", ctx())
				}
			}
		})
}

// Fixed coordinator history (runs in every tier): 2 shards + meta, 4 eligible + 1 waiting per shard with minimum 4,
// two eligible validators of every shard ask to leave, so exactly one per shard may; 24 freshly built nodes.
func TestVerifC13_CoordinatorRegress(t *testing.T) {
	kit.Silence()
	marsh := &marshal.GogoProtoMarshalizer{}
	for _, fixEp := range []uint32{0, 1000} {
		keys := &verifSHBKeyGen{}
		s := &verifSHBSetup{
			nbShards: 2, nodesShard: 4, nodesMeta: 4, gS: 2, gM: 2, hysteresis: 0, crossShard: true,
			balanceEp: 0, fixEp: fixEp, e0: 0, threshold: 5,
			chance:   &verifSHBChance{Table: []uint32{2, 0, 0, 0, 0, 2, 3, 4}, Top: 10},
			eligible: map[uint32][]verifSHBVal{}, waiting: map[uint32][]verifSHBVal{},
		}
		var infos []verifSHBInfo
		for _, sh := range verifSHBShardIDs(2) {
			for i := 0; i < 4; i++ {
				pk := keys.New()
				s.eligible[sh] = append(s.eligible[sh], verifSHBVal{PK: pk, Chances: 10, Index: uint32(i)})
				list := string(core.EligibleList)
				if i < 2 {
					list = string(core.LeavingList)
				}
				infos = append(infos, verifSHBInfo{PK: pk, Shard: sh, List: list, Index: uint32(i), TempRating: 20})
			}
			pk := keys.New()
			s.waiting[sh] = append(s.waiting[sh], verifSHBVal{PK: pk, Chances: 10})
			infos = append(infos, verifSHBInfo{PK: pk, Shard: sh, List: string(core.WaitingList), TempRating: 20})
		}
		sort.SliceStable(infos, func(i, j int) bool { return infos[i].PK < infos[j].PK })
		first := ""
		for rep := 0; rep < 24; rep++ {
			co, err := s.Build("observer", 0, false)
			if err != nil {
				t.Fatalf("fixture: %v", err)
			}
			body, err := verifSHBBody(infos, marsh)
			if err != nil {
				t.Fatalf("fixture: %v", err)
			}
			hdr := verifSHBEpochStartHeader(1, []byte("rand-1"))
			co.Base.EpochStartPrepare(hdr, body)
			got, _, _, ok := verifC13Config(co.NC(), 1)
			if !ok {
				t.Fatalf("fixture: epoch 1 refused (fix epoch %d)", fixEp)
			}
			if rep == 0 {
				first = got
			} else if got != first {
				kit.FailPlain(t, "C13", "C13:coordinator-config-differs", "fixed history (waiting list fix epoch %d): node %d differs:\n  first: %s\n  later: %s\n%s", fixEp, rep+1, first, got, verifSHBDescribeInfos(infos))
			}
		}
	}
}

// Regression table: fixed inputs evaluated 60 times with rotating insertion orders.
func TestVerifC13_Regress(t *testing.T) {
	kit.Silence()
	cases := []*verifSHAInput{
		verifSHAFixed(2, 2, [][2]int{{3, 2}, {3, 2}, {3, 2}, {3, 2}}, 4, []int{0, 5, 10, 15, 3, 8}, []int{1, 6, 11, 16}, 0, 1, true),
		verifSHAFixed(2, 2, [][2]int{{3, 2}, {3, 2}, {3, 2}, {3, 2}}, 4, []int{0, 5, 10, 15, 3, 8}, []int{1, 6, 11, 16}, 5, 1, false),
		verifSHAFixed(3, 3, [][2]int{{3, 0}, {4, 1}, {3, 3}, {2, 2}, {3, 1}}, 5, []int{0, 1, 2, 3, 7, 8, 9, 14, 16, 19}, nil, 0, 0, true),
	}
	for i, in := range cases {
		first := ""
		for rep := 0; rep < 60; rep++ {
			order := append([]uint32{}, in.shardIDs...)
			for k := range order {
				order[k] = in.shardIDs[(k+rep)%len(order)]
			}
			if rep%2 == 1 {
				for a, b := 0, len(order)-1; a < b; a, b = a+1, b-1 {
					order[a], order[b] = order[b], order[a]
				}
			}
			sh, err := in.shuffler()
			if err != nil {
				t.Fatalf("fixture: %v", err)
			}
			res, err := sh.UpdateNodeLists(in.build(order))
			got := verifSHAView(res, err).canon()
			if rep == 0 {
				first = got
			} else if got != first {
				kit.FailPlain(t, "C13", "C13:result-differs-between-evaluations", "regression case %d: evaluation %d differs:\n  first: %s\n  later: %s\n  input: %s", i, rep+1, first, got, in.String())
			}
		}
	}
}
