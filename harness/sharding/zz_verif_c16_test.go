package sharding

// C16: After an epoch change each validator has exactly one place.
//
// When the nodes coordinator prepares a new epoch from validator information consistent with the previous
// epoch, every public key appears in at most one shard and at most one of the eligible or waiting lists of the
// new epoch, and looking the key up by public key reports that same shard.

import (
	"fmt"
	"sort"
	"strings"
	"testing"

	"github.com/ElrondNetwork/elrond-go/core"
	"github.com/ElrondNetwork/elrond-go/marshal"
	kit "github.com/ElrondNetwork/elrond-go/verifkit"
	"pgregory.net/rapid"
)

type verifC16Place struct {
	shard uint32
	list  string
}

func verifC16ShardName(s uint32) string { return verifSHBShardName(s) }

// verifC16Places reads the configuration of an epoch through the public getters.
// ok=false if the epoch has no configuration.
func verifC16Places(nc NodesCoordinator, epoch uint32) (places map[string][]verifC16Place, eligible, waiting map[uint32][]string, ok bool) {
	el, err := nc.GetAllEligibleValidatorsPublicKeys(epoch)
	if err != nil {
		return nil, nil, nil, false
	}
	wt, err := nc.GetAllWaitingValidatorsPublicKeys(epoch)
	if err != nil {
		return nil, nil, nil, false
	}
	places = map[string][]verifC16Place{}
	eligible = map[uint32][]string{}
	waiting = map[uint32][]string{}
	for s, l := range el {
		for _, pk := range l {
			places[string(pk)] = append(places[string(pk)], verifC16Place{s, "eligible"})
			eligible[s] = append(eligible[s], string(pk))
		}
	}
	for s, l := range wt {
		for _, pk := range l {
			places[string(pk)] = append(places[string(pk)], verifC16Place{s, "waiting"})
			waiting[s] = append(waiting[s], string(pk))
		}
	}
	return places, eligible, waiting, true
}

func verifC16Describe(infos []verifSHBInfo) string { return verifSHBDescribeInfos(infos) }

func verifC16DescribeCfg(el, wt map[uint32][]string, _ uint32) string {
	return verifSHBDescribeCfg(el, wt, nil)
}

// verifC16Audit is the oracle for one prepared epoch. It returns the first violation (key, message) or "".
// ok=false: the epoch has no configuration.
func verifC16Audit(nc NodesCoordinator, epoch uint32, allowed map[string]string) (ok bool, eligible, waiting map[uint32][]string, vKey, vMsg string) {
	places, eligible, waiting, ok := verifC16Places(nc, epoch)
	if !ok {
		return false, nil, nil, "", ""
	}
	keys := make([]string, 0, len(places))
	for pk := range places {
		keys = append(keys, pk)
	}
	sort.Strings(keys)
	for _, pk := range keys {
		pl := places[pk]
		if len(pl) > 1 {
			return true, eligible, waiting, "C16:duplicate-place", fmt.Sprintf("key %s has %d places in epoch %d: %v", verifSHBShort(pk), len(pl), epoch, pl)
		}
		_, shard, err := nc.GetValidatorWithPublicKey([]byte(pk))
		if err != nil {
			return true, eligible, waiting, "C16:lookup-missing", fmt.Sprintf("key %s is %s in shard %s of epoch %d but GetValidatorWithPublicKey fails: %v", verifSHBShort(pk), pl[0].list, verifC16ShardName(pl[0].shard), epoch, err)
		}
		if shard != pl[0].shard {
			return true, eligible, waiting, "C16:lookup-shard", fmt.Sprintf("key %s is %s in shard %s of epoch %d but GetValidatorWithPublicKey reports shard %s", verifSHBShort(pk), pl[0].list, verifC16ShardName(pl[0].shard), epoch, verifC16ShardName(shard))
		}
		if allowed != nil {
			l, known := allowed[pk]
			if !known {
				return true, eligible, waiting, "C16:invented-key", fmt.Sprintf("key %s (%s, shard %s, epoch %d) is not in the validator information", verifSHBShort(pk), pl[0].list, verifC16ShardName(pl[0].shard), epoch)
			}
			if l == string(core.JailedList) || l == string(core.InactiveList) {
				return true, eligible, waiting, "C16:jailed-or-inactive-placed", fmt.Sprintf("key %s is %s in the validator information but %s in shard %s of epoch %d", verifSHBShort(pk), l, pl[0].list, verifC16ShardName(pl[0].shard), epoch)
			}
		}
	}
	return true, eligible, waiting, "", ""
}

func verifC16CheckEpoch(c *kit.Case, nc NodesCoordinator, epoch uint32, allowed map[string]string, ctx func() string) (ok bool, eligible, waiting map[uint32][]string) {
	ok, eligible, waiting, vKey, vMsg := verifC16Audit(nc, epoch, allowed)
	if vKey != "" {
		c.Violation(vKey, "%s\n%s", vMsg, ctx())
	}
	return ok, eligible, waiting
}

func verifC16RunCase(rt *rapid.T, c *kit.Case) {
	keys := verifSHBDrawKeyGen(rt)
	s := verifSHBGenSetup(rt, keys)
	co, err := s.Build(s.selfPK, s.cacheSize, s.rater)
	if err != nil {
		rt.Fatalf("fixture: %v (%s)", err, s)
	}
	nc := co.NC()
	marsh := &marshal.GogoProtoMarshalizer{}
	maxEpochs := 4
	if kit.Thorough() {
		maxEpochs = 6
	}
	nEpochs := rapid.IntRange(1, maxEpochs).Draw(rt, "nEpochs")
	if nEpochs == 1 && rapid.Bool().Draw(rt, "moreEpochs") {
		nEpochs = 3
	}

	var history []string
	ctx := func() string { return s.String() + "\n" + strings.Join(history, "\n") }

	ok, eligible, waiting := verifC16CheckEpoch(c, nc, s.e0, nil, ctx)
	if !ok {
		rt.Fatalf("fixture: initial epoch has no configuration")
	}
	history = append(history, fmt.Sprintf("epoch %d: %s", s.e0, verifC16DescribeCfg(eligible, waiting, s.nbShards)))
	prevLeaving := map[string]bool{}
	everPlaced := map[string]bool{}
	cur := s.e0
	for k := 0; k < nEpochs; k++ {
		gone := verifSHBGone(eligible, waiting, everPlaced)
		infos, st := verifSHBGenInfos(rt, s, keys, eligible, waiting, prevLeaving, gone)
		allowed := map[string]string{}
		prevLeaving = map[string]bool{}
		for _, in := range infos {
			allowed[in.PK] = in.List
			if in.List == string(core.LeavingList) {
				prevLeaving[in.PK] = true
			}
		}
		body, err := verifSHBBody(infos, marsh)
		if err != nil {
			rt.Fatalf("fixture: %v", err)
		}
		seed := rapid.SliceOfN(rapid.Byte(), 1, 32).Draw(rt, "prevRandSeed")
		hdr := verifSHBEpochStartHeader(cur+1, seed)
		history = append(history, fmt.Sprintf("validator info for epoch %d (rand %x): %s", cur+1, seed, verifC16Describe(infos)))
		c.NoPanic("C16:panic", func() {
			co.Base.EpochStartPrepare(hdr, body)
			co.Base.EpochStartAction(hdr)
		})
		var okEpoch bool
		okEpoch, eligible, waiting = verifC16CheckEpoch(c, nc, cur+1, allowed, ctx)
		if !okEpoch {
			// the shuffler (too few nodes) or the coordinator (eligible list below the group size) refused
			c.Class("epoch-refused")
			return
		}
		c.Class("epoch-ok")
		history = append(history, fmt.Sprintf("epoch %d: %s", cur+1, verifC16DescribeCfg(eligible, waiting, s.nbShards)))
		if st.leavingEligible > 0 && st.leavingWaiting > 0 && st.newNodes > 0 && s.nbShards >= 2 && k >= 1 {
			c.NonTrivial(ctx())
			c.Sample("%s", ctx())
			c.Class("epoch-nontrivial")
		}
		if st.jailed > 0 {
			c.Class("epoch-with-jailed")
		}
		if st.unknownLeaving > 0 {
			c.Class("epoch-with-unknown-leaving")
		}
		if st.lowRated > 0 {
			c.Class("epoch-with-low-rating")
		}
		if st.returning > 0 {
			c.Class("epoch-with-returning-validator")
		}
		cur++
	}
}

func TestVerifC16_EpochChange(t *testing.T) {
	kit.Run(t, "C16", kit.Budget{Quick: 4000, Thorough: 60000},
		"1-3 shards + meta, min nodes 1..4, group sizes <= min nodes, hysteresis 0/0.2/1, cross-shard or intra-shard distributor, 0-2 max-nodes configs, waiting-list-fix epoch 0/3/never (same value in coordinator and shuffler), balance epoch 0/3/never, start epoch 0..3, with or without rater; validator keys of 8 bytes (1/2), 96 bytes (1/4) or of different lengths 2-7 sharing prefixes (1/4); 1-4 (thorough 6) consecutive epochs; the validator info of each epoch is derived from the configuration the coordinator reports for the current epoch: each validator keeps (list, shard) or becomes leaving / jailed / inactive with its current shard (rates drawn per epoch; refused leavers mostly stay leaving), plus 0-4 new, 0-2 jailed/inactive and 0-2 leaving entries with fresh keys, drawn index and rating; marshalled with the production marshalizer into per-shard peer miniblocks; EpochStartPrepare + EpochStartAction; non-trivial = an epoch reached as 2nd or later with >=1 leaving eligible, >=1 leaving waiting, >=1 new, >=2 shards; distinct by the whole history",
		verifC16RunCase)
}

// Fixed histories (run in every tier): 2 shards, every kind of entry, fix flag on / off / switching, with and without rater.
func TestVerifC16_Regress(t *testing.T) {
	kit.Silence()
	marsh := &marshal.GogoProtoMarshalizer{}
	for _, fixEp := range []uint32{0, 2, 1000} {
		for _, rater := range []bool{false, true} {
			for _, cross := range []bool{false, true} {
				// the odd combinations use keys of different lengths with shared prefixes
				keys := &verifSHBKeyGen{ragged: rater != cross}
				s := &verifSHBSetup{
					nbShards: 2, nodesShard: 2, nodesMeta: 2, gS: 2, gM: 1, hysteresis: 0.2, crossShard: cross,
					balanceEp: 0, fixEp: fixEp, e0: 0, rater: rater, threshold: 5,
					chance:   &verifSHBChance{Table: []uint32{2, 0, 0, 0, 0, 2, 3, 4}, Top: 10},
					eligible: map[uint32][]verifSHBVal{}, waiting: map[uint32][]verifSHBVal{},
				}
				for _, sh := range verifSHBShardIDs(2) {
					for i := 0; i < 4; i++ {
						s.eligible[sh] = append(s.eligible[sh], verifSHBVal{PK: keys.New(), Chances: 10, Index: uint32(i)})
					}
					for i := 0; i < 2; i++ {
						s.waiting[sh] = append(s.waiting[sh], verifSHBVal{PK: keys.New(), Chances: 10, Index: uint32(i)})
					}
				}
				co, err := s.Build("observer", 0, rater)
				if err != nil {
					t.Fatalf("fixture: %v", err)
				}
				nc := co.NC()
				_, eligible, waiting, vKey, vMsg := verifC16Audit(nc, 0, nil)
				if vKey != "" {
					kit.FailPlain(t, "C16", vKey, "%s (initial configuration)", vMsg)
				}
				for e := uint32(1); e <= 4; e++ {
					var infos []verifSHBInfo
					allowed := map[string]string{}
					n := 0
					add := func(list string, m map[uint32][]string) {
						for _, sh := range verifSHBShardIDs(2) {
							for pos, pk := range m[sh] {
								in := verifSHBInfo{PK: pk, Shard: sh, List: list, Index: uint32(pos), TempRating: 20}
								n++
								switch {
								case (n+int(e))%5 == 0:
									in.List = string(core.LeavingList)
								case (n+int(e))%11 == 0:
									in.List = string(core.JailedList)
								case (n+int(e))%7 == 0:
									in.TempRating = 2 // below the threshold: additional leaving with the rater
								}
								infos = append(infos, in)
							}
						}
					}
					add(string(core.EligibleList), eligible)
					add(string(core.WaitingList), waiting)
					infos = append(infos,
						verifSHBInfo{PK: keys.New(), Shard: 0, List: string(core.NewList), TempRating: 20},
						verifSHBInfo{PK: keys.New(), Shard: 1, List: string(core.NewList), Index: 1, TempRating: 20},
						verifSHBInfo{PK: keys.New(), Shard: core.MetachainShardId, List: string(core.LeavingList), TempRating: 20},
						verifSHBInfo{PK: keys.New(), Shard: 1, List: string(core.InactiveList), TempRating: 20},
					)
					sort.SliceStable(infos, func(i, j int) bool { return infos[i].PK < infos[j].PK })
					for _, in := range infos {
						allowed[in.PK] = in.List
					}
					body, err := verifSHBBody(infos, marsh)
					if err != nil {
						t.Fatalf("fixture: %v", err)
					}
					hdr := verifSHBEpochStartHeader(e, []byte(fmt.Sprintf("rand-%d", e)))
					co.Base.EpochStartPrepare(hdr, body)
					co.Base.EpochStartAction(hdr)
					var ok bool
					ok, eligible, waiting, vKey, vMsg = verifC16Audit(nc, e, allowed)
					if !ok {
						t.Fatalf("fixture: epoch %d refused (fix %d rater %v cross %v)", e, fixEp, rater, cross)
					}
					if vKey != "" {
						kit.FailPlain(t, "C16", vKey, "%s (fixed history: fix epoch %d, rater %v, cross-shard %v)\n%s", vMsg, fixEp, rater, cross, verifC16Describe(infos))
					}
				}
			}
		}
	}
}
