package sharding

import (
	"fmt"
	"testing"

	kit "github.com/ElrondNetwork/elrond-go/verifkit"
	"pgregory.net/rapid"
)

// C14: Reshuffling keeps every shard at its minimum size (waiting-list fix active).

func verifC14Check(in *verifSHAInput, r *verifSHAResult, report func(key, msg string)) {
	if r.err != "" {
		report("C14:error-despite-precondition", fmt.Sprintf("UpdateNodeLists failed with %s although every shard holds its minimum; input: %s", r.err, in.String()))
		return
	}
	for _, s := range in.shardIDs {
		if len(r.eligible[s]) < in.minOf(s) {
			report("C14:shard-below-minimum", fmt.Sprintf("shard %s has %d eligible validators after reshuffling, minimum %d (before: %d eligible + %d waiting); input: %s => result: %s",
				verifSHAShardName(s), len(r.eligible[s]), in.minOf(s), len(in.eligible[s]), len(in.waiting[s]), in.String(), r.canon()))
		}
	}
}

func TestVerifC14_MinimumSize(t *testing.T) {
	kit.Run(t, "C14", kit.Budget{Quick: 15000, Thorough: 200000},
		"SG constrained by construction to the precondition: epoch >= WaitingListFixEnableEpoch, every shard and meta has eligible+waiting >= NodesShard/NodesMeta (eligible may be empty) (30 % exactly at the minimum); leaving lists drawn aggressively (one whole shard / up to everybody; 25 % with duplicates and unknown keys); oracle: no error and len(Eligible[s]) >= minimum for every shard; non-trivial = some shard where the number of distinct leaving requests exceeds eligible+waiting-minimum (cap binding); distinct by (sizes, flags, leaving shape)",
		func(rt *rapid.T, c *kit.Case) {
			in := verifSHAGen(rt, verifSHAMinSize)
			if !in.fixActive() {
				rt.Fatalf("fixture: generator produced a case with the waiting list fix off")
			}
			sh, err := in.shuffler()
			if err != nil {
				rt.Fatalf("fixture: NewHashValidatorsShuffler: %v", err)
			}
			var res *ResUpdateNodes
			c.NoPanic("C14:update-node-lists-panic", func() { res, err = sh.UpdateNodeLists(in.build(nil)) })
			r := verifSHAView(res, err)
			verifC14Check(in, r, func(key, msg string) { c.Violation(key, "%s", msg) })

			requested := map[string]bool{}
			for _, l := range [][]verifSHAVal{in.unstake, in.additional} {
				for _, v := range l {
					requested[v.pk] = true
				}
			}
			binding, anyLeft := false, len(r.leaving) > 0
			for _, s := range in.shardIDs {
				n := 0
				for _, l := range [][]verifSHAVal{in.eligible[s], in.waiting[s]} {
					for _, v := range l {
						if requested[v.pk] {
							n++
						}
					}
				}
				if n > len(in.eligible[s])+len(in.waiting[s])-in.minOf(s) {
					binding = true
				}
			}
			if anyLeft {
				c.Class("some-validator-left")
			}
			if in.maxSwap() == 0 {
				c.Class("nodesToShuffle=0")
			}
			if binding {
				c.NonTrivial(in.shape())
				c.Sample("%s => %s", in.String(), r.canon())
			}
		})
}

// Regression table: everybody wants to leave, shards exactly at / above the minimum.
func TestVerifC14_Regress(t *testing.T) {
	kit.Silence()
	all := func(n int) []int {
		l := make([]int, n)
		for i := range l {
			l[i] = i
		}
		return l
	}
	cases := []*verifSHAInput{
		verifSHAFixed(2, 2, [][2]int{{2, 0}, {1, 1}, {2, 0}}, 0, all(6), nil, 0, 0, false),
		verifSHAFixed(2, 3, [][2]int{{2, 3}, {4, 1}, {3, 3}}, 2, all(16), all(16), 0, 3, true),
		verifSHAFixed(3, 2, [][2]int{{1, 5}, {3, 0}, {1, 1}}, 0, []int{1, 2, 3, 4, 5, 0}, []int{9, 10, 6, 7, 8}, 2, 2, true),
		verifSHAFixed(1, 6, [][2]int{{1, 0}, {1, 6}}, 1, nil, all(8), 0, 9, false),
	}
	for i, in := range cases {
		sh, err := in.shuffler()
		if err != nil {
			t.Fatalf("fixture: %v", err)
		}
		res, err := sh.UpdateNodeLists(in.build(nil))
		verifC14Check(in, verifSHAView(res, err), func(key, msg string) {
			kit.FailPlain(t, "C14", key, "regression case %d: %s", i, msg)
		})
	}
}
