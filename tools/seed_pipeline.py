#!/usr/bin/env python3
"""tools/seed_pipeline.py [-j N] [--only ID...]: import /tmp/seed*-out/<Cnn-x>/ into /verif/seeded/, confirm each
(tools/confirm_seed.py) and run the property's quick check against it (tools/mutcheck.py). Results -> seeded/RESULTS.json"""
import glob, json, os, re, shutil, subprocess, sys
from concurrent.futures import ThreadPoolExecutor
V = "/verif"
args = sys.argv[1:]
j = 3
if "-j" in args:
    i = args.index("-j"); j = int(args[i + 1]); del args[i:i + 2]
only = set(args[1:]) if args and args[0] == "--only" else None
resf = os.path.join(V, "seeded", "RESULTS.json")
results = json.load(open(resf)) if os.path.exists(resf) else {}
dirs = sorted(d for d in glob.glob("/tmp/seed*-out/C*-*/") + glob.glob("/tmp/sd2_*-out/C*-*/") if re.search(r"/C\d\d-[a-z]/$", d))
def work(d):
    name = os.path.basename(d.rstrip("/"))
    if only and name not in only: return
    if not all(os.path.exists(os.path.join(d, f)) for f in ("patch.diff", "demo.diff", "meta.json")): return
    try:
        json.load(open(os.path.join(d, "meta.json")))["demo_cmd"]
    except Exception:
        return
    dst = os.path.join(V, "seeded", name)
    os.makedirs(dst, exist_ok=True)
    for f in ("patch.diff", "demo.diff", "meta.json"):
        if os.path.exists(os.path.join(d, f)) and not os.path.exists(os.path.join(dst, f)):
            shutil.copy(os.path.join(d, f), dst)
    r = results.get(name, {})
    meta = json.load(open(os.path.join(dst, "meta.json")))
    if "confirmed" not in r:
        p = subprocess.run([os.path.join(V, "tools/confirm_seed.py"), dst] + (["--skip-tests"] if os.environ.get("SEED_SKIP_TESTS") else []), text=True, stdout=subprocess.PIPE, stderr=subprocess.STDOUT)
        try:
            c = json.loads(p.stdout[p.stdout.index("{"):])
        except Exception:
            c = {"confirmed": False, "error": p.stdout[-500:]}
        r["confirmed"] = c.get("confirmed", False); r["confirm_detail"] = {k: c[k] for k in c if k not in ("demo_fail_excerpt",)}
    if "check" not in r:
        prop = meta["property"]
        p = subprocess.run([os.path.join(V, "tools/mutcheck.py"), os.path.join(dst, "patch.diff"), prop], text=True, stdout=subprocess.PIPE, stderr=subprocess.STDOUT)
        m = re.search(r"(CAUGHT|MISSED|INCONCLUSIVE|patch-failed)", p.stdout)
        r["check"] = m.group(1) if m else "?"
        r["check_detail"] = p.stdout.strip()[-400:]
    results[name] = r
    print(name, r["confirmed"], r["check"], flush=True)
    json.dump(results, open(resf, "w"), indent=1)
with ThreadPoolExecutor(max_workers=j) as ex:
    list(ex.map(work, dirs))
json.dump(results, open(resf, "w"), indent=1)
