#!/usr/bin/env python3
"""tools/confirm_tests_pass.py [-j N] [names...]: for seeded changes whose meta.json lacks the existing-tests confirmation,
apply patch.diff in a scratch worktree and run `go test` of the touched packages (demo file not applied). Updates meta.json
(confirmed.existing_tests_touched_pkgs) and seeded/RESULTS.json."""
import json, os, re, subprocess, sys, glob
from concurrent.futures import ThreadPoolExecutor
sys.path.insert(0, os.path.dirname(os.path.abspath(__file__)))
import slots
env = dict(os.environ, GOFLAGS="-mod=mod", GOPROXY="off", GOSUMDB="off", GOTOOLCHAIN="local")
def sh(c, cwd=None, to=3000):
    try:
        p = subprocess.run(c, shell=True, cwd=cwd, env=env, text=True, stdout=subprocess.PIPE, stderr=subprocess.STDOUT, timeout=to)
        return p.returncode, p.stdout
    except subprocess.TimeoutExpired:
        return 124, "timeout"
a = sys.argv[1:]; j = 3
if a and a[0] == "-j": j = int(a[1]); a = a[2:]
names = a or sorted(os.path.basename(d) for d in glob.glob("/verif/seeded/C*-*") if os.path.isdir(d))
def work(n):
    d = "/verif/seeded/" + n
    m = json.load(open(d + "/meta.json"))
    c = m.get("confirmed") or {}
    if c.get("existing_tests_touched_pkgs", {}).get("result") == "pass" or m.get("not_applicable_after_fix"):
        return
    wt = slots.acquire()
    try:
        rc, out = sh("git apply --whitespace=nowarn %s/patch.diff" % d, cwd=wt)
        if rc: print(n, "patch does not apply"); return
        files = re.findall(r"^\+\+\+ b/(\S+)", open(d + "/patch.diff").read(), re.M)
        pkgs = sorted({"./" + os.path.dirname(f) for f in files if f.endswith(".go")})
        res = "FAIL"; detail = ""
        for attempt in range(2):   # timing-flaky repository tests: one retry
            rc, out = sh("go build ./... && go test -vet=off -count=1 " + " ".join(pkgs), cwd=wt)
            if rc == 0: res = "pass"; break
            detail = "\n".join([l for l in out.splitlines() if l.startswith(("FAIL", "--- FAIL", "ok"))][:10])
        c["existing_tests_touched_pkgs"] = {"pkgs": pkgs, "result": res}
        if detail and res != "pass": c["tests_out"] = detail
        c["confirmed"] = bool(c.get("demo_without_change") == "pass" and c.get("demo_with_change") == "fail" and res == "pass")
        m["confirmed"] = c
        json.dump(m, open(d + "/meta.json", "w"), indent=1)
        print(n, res, flush=True)
    finally:
        slots.release(wt)
with ThreadPoolExecutor(max_workers=j) as ex:
    list(ex.map(work, names))
