#!/bin/bash
# tools/applyfix.sh <patch> "<commit message>" <pkg>...   : apply a fix patch to /repo, run package tests, commit
set -e
export GOFLAGS=-mod=mod GOPROXY=off GOSUMDB=off GOTOOLCHAIN=local
P=$(realpath "$1"); MSG="$2"; shift 2
cd /repo
git apply --check --exclude="*_test.go" "$P"
git apply --exclude="*_test.go" "$P"
if ! go test -vet=off -count=1 "$@" 2>&1 | tail -15; then echo "TESTS FAILED"; fi
git add -A -- . ':!integrationTests/multiShard/endOfEpoch/startInEpoch/Static'
git commit -q -m "$MSG"
git log --oneline | head -1
git status --short | head -3
