"""Scratch worktrees of /repo at a small set of FIXED paths (/tmp/verif-slot-<k>): the Go build cache keys cgo
packages and overlay builds by directory, so re-using the same paths keeps builds fast."""
import os, subprocess, time

def _sh(c):
    return subprocess.run(c, shell=True, text=True, stdout=subprocess.PIPE, stderr=subprocess.STDOUT)

def acquire(n=16):
    while True:
        for k in range(n):
            lock = "/tmp/verif-slot-%d.lock" % k
            try:
                os.mkdir(lock)
            except FileExistsError:
                # stale lock of a dead process?
                try:
                    pid = int(open(os.path.join(lock, "pid")).read())
                    os.kill(pid, 0)
                    continue
                except (OSError, ValueError):
                    pass
            open(os.path.join(lock, "pid"), "w").write(str(os.getpid()))
            wt = "/tmp/verif-slot-%d" % k
            _sh("git -C /repo worktree remove --force %s" % wt)
            _sh("rm -rf %s; git -C /repo worktree prune" % wt)
            r = _sh("git -C /repo worktree add --detach %s HEAD" % wt)
            if r.returncode != 0:
                release(wt)
                raise RuntimeError(r.stdout)
            return wt
        time.sleep(5)

def release(wt):
    k = wt.rsplit("-", 1)[-1]
    _sh("git -C /repo worktree remove --force %s" % wt)
    _sh("rm -rf %s; git -C /repo worktree prune" % wt)
    lock = "/tmp/verif-slot-%s.lock" % k
    try:
        os.remove(os.path.join(lock, "pid"))
    except OSError:
        pass
    try:
        os.rmdir(lock)
    except OSError:
        pass
