#!/usr/bin/env python3
"""Confirm a seeded change: tools/confirm_seed.py <dir with patch.diff demo.diff meta.json> [--skip-tests]
 1. scratch worktree of /repo HEAD; apply demo.diff; demo_cmd must PASS
 2. apply patch.diff; build; demo_cmd must FAIL
 3. the packages touched by the patch: `go test` must pass with the change (existing tests, demo file removed)
Prints a JSON verdict and (on success) writes it into meta.json as "confirmed"."""
import json, os, subprocess, sys, time, re
d = os.path.abspath(sys.argv[1]); skip = "--skip-tests" in sys.argv
env = dict(os.environ, GOFLAGS="-mod=mod", GOPROXY="off", GOSUMDB="off", GOTOOLCHAIN="local")
def sh(c, cwd=None, to=2400):
    try:
        p = subprocess.run(c, shell=True, cwd=cwd, env=env, text=True, stdout=subprocess.PIPE, stderr=subprocess.STDOUT, timeout=to)
        return p.returncode, p.stdout
    except subprocess.TimeoutExpired:
        return 124, "timeout"
meta = json.load(open(os.path.join(d, "meta.json")))
sys.path.insert(0, os.path.dirname(os.path.abspath(__file__)))
import slots
wt = slots.acquire()
res = {"head": sh("git -C /repo rev-parse --short HEAD")[1].strip(), "when": time.strftime("%Y-%m-%d %H:%M")}
try:
    rc, out = sh("git apply --whitespace=nowarn %s" % os.path.join(d, "demo.diff"), cwd=wt)
    if rc: res["error"] = "demo.diff does not apply: " + out[-300:]; raise SystemExit
    demo = meta["demo_cmd"]
    rc, out = sh(demo, cwd=wt); res["demo_without_change"] = "pass" if rc == 0 else "FAIL"
    if rc: res["demo_out"] = out[-600:]
    rc, out = sh("git apply --whitespace=nowarn %s" % os.path.join(d, "patch.diff"), cwd=wt)
    if rc: res["error"] = "patch.diff does not apply: " + out[-300:]; raise SystemExit
    rc, out = sh(demo, cwd=wt); res["demo_with_change"] = "fail" if rc != 0 else "PASSES"
    res["demo_fail_excerpt"] = "\n".join([l for l in out.splitlines() if "FAIL" in l or "Error" in l or "panic" in l][:6])[:600]
    if not skip:
        # remove demo files, run tests of touched packages
        sh("git apply -R --whitespace=nowarn %s" % os.path.join(d, "demo.diff"), cwd=wt)
        files = re.findall(r"^\+\+\+ b/(\S+)", open(os.path.join(d, "patch.diff")).read(), re.M)
        pkgs = sorted({"./" + os.path.dirname(f) for f in files if f.endswith(".go")})
        rc, out = sh("go build ./... && go test -vet=off -count=1 " + " ".join(pkgs), cwd=wt)
        res["existing_tests_touched_pkgs"] = {"pkgs": pkgs, "result": "pass" if rc == 0 else "FAIL"}
        if rc: res["tests_out"] = "\n".join([l for l in out.splitlines() if l.startswith(("FAIL", "---", "ok"))][:12])
finally:
    slots.release(wt)
ok = res.get("demo_without_change") == "pass" and res.get("demo_with_change") == "fail" and (skip or res.get("existing_tests_touched_pkgs", {}).get("result") == "pass")
res["confirmed"] = ok
print(json.dumps(res, indent=1))
if ok:
    meta["confirmed"] = res
    json.dump(meta, open(os.path.join(d, "meta.json"), "w"), indent=1)
