#!/usr/bin/env python3
"""Run checks against a patched scratch worktree of /repo.

  tools/mutcheck.py <patch.diff> <Cid> [<Cid>...] [--tier quick] [--seed N]
  tools/mutcheck.py --seeded [<seeded-dir-name>...]     # every /verif/seeded/<name>/ (meta.json: property)

Creates /tmp/verif-mut-<pid> as a detached worktree of /repo HEAD, applies the patch, runs
`VERIF_REPO=<wt> ./check <Cid>` and reports whether the check flagged a VIOLATION (exit 1).
The worktree is removed afterwards. /repo itself is never modified.
"""
import json, os, subprocess, sys, time, glob

VERIF = os.path.dirname(os.path.dirname(os.path.abspath(__file__)))


def sh(cmd, **kw):
    return subprocess.run(cmd, shell=True, text=True, stdout=subprocess.PIPE, stderr=subprocess.STDOUT, **kw)


def run_one(patch, ids, tier, seed):
    sys.path.insert(0, os.path.dirname(os.path.abspath(__file__)))
    import slots
    wt = slots.acquire()
    res = {}
    try:
        r = sh("git -C %s apply --whitespace=nowarn %s" % (wt, patch))
        if r.returncode != 0:
            print("PATCH DOES NOT APPLY: %s\n%s" % (patch, r.stdout))
            return {i: "patch-failed" for i in ids}
        for i in ids:
            env = dict(os.environ, VERIF_REPO=wt, VERIF_SEED=str(seed))
            t0 = time.time()
            r = sh("./check %s --tier %s" % (i, tier), cwd=VERIF, env=env)
            res[i] = {0: "MISSED", 1: "CAUGHT", 2: "INCONCLUSIVE"}.get(r.returncode, str(r.returncode))
            tail = [l for l in r.stdout.splitlines() if l.startswith(("VIOLATION", "violation detail", "INCONCLUSIVE", "OK", "BUILD-FAILED"))]
            print("%-40s %s %-12s %.0fs  %s" % (os.path.basename(os.path.dirname(patch)) or patch, i, res[i], time.time() - t0, " | ".join(tail)[:300]), flush=True)
    finally:
        slots.release(wt)
    return res


def main():
    a = sys.argv[1:]
    tier, seed = "quick", 1
    if "--tier" in a:
        i = a.index("--tier"); tier = a[i + 1]; del a[i:i + 2]
    if "--seed" in a:
        i = a.index("--seed"); seed = int(a[i + 1]); del a[i:i + 2]
    if a and a[0] == "--seeded":
        names = a[1:] or sorted(os.path.basename(d) for d in glob.glob(os.path.join(VERIF, "seeded", "*")) if os.path.isdir(d))
        summary = {}
        for n in names:
            d = os.path.join(VERIF, "seeded", n)
            meta = json.load(open(os.path.join(d, "meta.json")))
            ids = meta["property"] if isinstance(meta["property"], list) else [meta["property"]]
            summary[n] = run_one(os.path.join(d, "patch.diff"), ids, tier, seed)
        print(json.dumps(summary, indent=1))
        return
    patch, ids = a[0], a[1:]
    run_one(os.path.abspath(patch), ids, tier, seed)


if __name__ == "__main__":
    main()
