#!/usr/bin/env python3
"""Regenerates notes/seeded_table.md and the table inside DESIGN.md (between the SEEDED-TABLE markers) from
seeded/RESULTS.json and seeded/*/meta.json."""
import json, re, os
V = "/verif"
r = json.load(open(V + "/seeded/RESULTS.json"))
first_missed = set(open(V + "/seeded/FIRST_MISSED.txt").read().split()) if os.path.exists(V + "/seeded/FIRST_MISSED.txt") else set()
rows = []; stats = {}
for n in sorted(r):
    d = V + "/seeded/" + n
    if not os.path.exists(d + "/meta.json"): continue
    m = json.load(open(d + "/meta.json")); res = r[n]
    rnd = "1" if n[-1] in "ab" else "2"
    c = m.get("confirmed") or {}
    tests = c.get("existing_tests_touched_pkgs", {}).get("result", "pending")
    if m.get("not_applicable_after_fix"): status = "n/a after fix 72a175f"; key = ""; cls = "na"
    elif m.get("out_of_scope"): status = "out of scope ³"; cls = "oos"
    elif tests == "FAIL": status = "rejected: existing tests fail with it"; cls = "rejected"
    else:
        status = res.get("check", "?") + (" ²" if n in first_missed else ""); cls = res.get("check", "?")
    mm = re.search(r"key=(\S+)", res.get("check_detail", "")); key = mm.group(1) if mm and cls == "CAUGHT" else ""
    summ = (m.get("summary") or "")[:150].replace("|", "/").replace("\n", " ")
    rows.append("| %s | %s | %s | %s | `%s` |" % (n, rnd, summ, status, key))
    stats.setdefault(rnd, {}).setdefault(cls, 0); stats[rnd][cls] += 1
table = "| change | round | what was changed (from its meta.json, truncated) | quick check | violation key |\n|---|---|---|---|---|\n" + "\n".join(rows) + "\n"
open(V + "/notes/seeded_table.md", "w").write(table)
s = open(V + "/DESIGN.md").read()
a, b = "<!-- SEEDED-TABLE-BEGIN -->", "<!-- SEEDED-TABLE-END -->"
if a in s and b in s:
    s = s[:s.index(a) + len(a)] + "\n" + table + s[s.index(b):]
    open(V + "/DESIGN.md", "w").write(s)
print(json.dumps(stats))
